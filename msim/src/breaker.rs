//! C03 / C09 on the real `CircuitBreaker`, callers on 2-4 OS threads. The breaker reads tokio's
//! paused clock (verif-hooks), which does not move while the threads run: an open breaker stays
//! open and a half-open episode can only end by completed trials.
//!
//! Shape 0 (C03): the breaker starts closed, the threads send failing and successful calls; a
//! thread that *itself* reads `Open` from `state_sync()` before it starts a request must see that
//! request refused without reaching the wrapped service (`C03.no_inner_while_open`), and when the
//! breaker is open at the end so is a last request.
//! Shape 1 (C09): the main thread opens the breaker and lets the wait elapse; the threads then
//! send trial calls that never complete and keep their futures alive: at most
//! `permitted_calls_in_half_open` are ever inside the wrapped service
//! (`C09.trials_le_permitted`), and at least one gets in (`C09.not_stranded`).

use crate::*;
use tower_layer::Layer;
use tower_resilience_circuitbreaker::{CircuitBreakerLayer, CircuitState, SlidingWindowType};
use tower_service::Service;

const WAIT_MS: u64 = 30_000;

pub fn run(wseed: u64, rt: &tokio::runtime::Runtime) {
    let mut rng = Rng::new(wseed);
    let shape = rng.below(2);
    let size = 1 + rng.below(3) as usize;
    let permitted = 1 + rng.below(2) as usize;
    let time_based = rng.chance(1, 3);
    let threads = 2 + rng.below(3) as usize;
    // per request: (pends, fail)
    let plans: Vec<Vec<(u32, bool)>> = (0..threads).map(|_| (0..1 + rng.below(if shape == 1 { 1 } else { 3 })).map(|_| (rng.below(3) as u32, rng.chance(2, 3))).collect()).collect();
    let n: usize = plans.iter().map(|p| p.len()).sum();
    println!("MSIM scenario=breaker wseed={} shape={} size={} permitted={} time_based={} plans={:?}", wseed, shape, size, permitted, time_based, plans);
    let handle = rt.handle().clone();
    let _g = rt.enter();
    let sh = Shared::new(if shape == 1 { permitted } else { usize::MAX }, n + size + 1);
    let mut b = CircuitBreakerLayer::builder()
        .failure_rate_threshold(0.5)
        .sliding_window_size(size)
        .minimum_number_of_calls(size)
        .wait_duration_in_open(Duration::from_millis(WAIT_MS))
        .permitted_calls_in_half_open(permitted);
    if time_based {
        b = b.sliding_window_type(SlidingWindowType::TimeBased).sliding_window_duration(Duration::from_secs(3600));
    }
    let svc = b.build().layer(Inner { sh: sh.clone() });
    if shape == 1 {
        let mut first = svc.clone();
        for k in 0..size {
            let ready = drive(Box::pin(std::future::poll_fn(|cx| first.poll_ready(cx))).as_mut(), 50);
            if matches!(ready, Some(Ok(()))) {
                let mut f = Box::pin(first.call(Req { id: n + k, pends: 0, fail: true, slow_drop: 0, key: 0 }));
                let _ = drive(f.as_mut(), 200);
            }
        }
        if first.state_sync() != CircuitState::Open {
            violation("C04.harness", format!("{} failures out of {} did not open the breaker", size, size));
        }
        rt.block_on(tokio::time::advance(Duration::from_millis(WAIT_MS + 1)));
        sh.in_flight.store(0, SeqCst);
        sh.peak.store(0, SeqCst);
        sh.violated.store(false, SeqCst);
        sh.entered_total.store(0, SeqCst);
    }
    let mut joins = Vec::new();
    let mut base = 0usize;
    for plan in plans {
        let mut svc = svc.clone();
        let handle = handle.clone();
        let sh = sh.clone();
        let b = base;
        base += plan.len();
        joins.push(std::thread::spawn(move || {
            let _g = handle.enter();
            let mut kept = Vec::new();
            for (i, (pends, fail)) in plan.into_iter().enumerate() {
                let id = b + i;
                let saw_open = shape == 0 && svc.state_sync() == CircuitState::Open;
                let ready = drive(Box::pin(std::future::poll_fn(|cx| svc.poll_ready(cx))).as_mut(), 200);
                if !matches!(ready, Some(Ok(()))) {
                    // refused at readiness: nothing may have reached the wrapped service
                    note(5, id);
                    continue;
                }
                let req = if shape == 1 { Req { id, pends: 1_000_000, fail: false, slow_drop: 0, key: 0 } } else { Req { id, pends, fail, slow_drop: 0, key: 0 } };
                let mut f = Box::pin(svc.call(req));
                if shape == 1 {
                    let mut done = false;
                    for _ in 0..3 {
                        if poll_once(f.as_mut()).is_ready() {
                            // refused (a trial itself never completes)
                            done = true;
                            break;
                        }
                        std::thread::yield_now();
                    }
                    note(if done { 5 } else { 4 }, id);
                    if !done {
                        kept.push(f);
                    }
                    continue;
                }
                let r = drive(f.as_mut(), 10_000);
                if r.is_none() {
                    violation("C03.no_hang [os_threads]", format!("request {} never resolved", id));
                }
                note(if sh.entered[id].load(SeqCst) > 0 { 4 } else { 5 }, id);
                if saw_open && sh.entered[id].load(SeqCst) > 0 {
                    violation("C03.no_inner_while_open [os_threads]", format!("request {} was started by a thread that had read Open from state_sync() and reached the wrapped service (the wait cannot elapse: the clock stands still)", id));
                }
            }
            kept
        }));
    }
    let mut kept = Vec::new();
    for j in joins {
        kept.extend(j.join().expect("caller thread"));
    }
    if shape == 1 {
        let inside = sh.entered_total.load(SeqCst);
        if sh.violated.load(SeqCst) || inside > permitted {
            violation("C09.trials_le_permitted [os_threads]", format!("{} trial calls reached the wrapped service in one half-open episode in which no trial completed, permitted_calls_in_half_open {}", inside, permitted));
        }
        if inside == 0 {
            violation("C09.not_stranded [os_threads]", format!("{} callers after the wait, none was let through as a trial", n));
        }
    } else if svc.state_sync() == CircuitState::Open {
        let mut last = svc.clone();
        let id = n + size;
        let ready = drive(Box::pin(std::future::poll_fn(|cx| last.poll_ready(cx))).as_mut(), 200);
        if matches!(ready, Some(Ok(()))) {
            let mut f = Box::pin(last.call(Req { id, pends: 0, fail: false, slow_drop: 0, key: 0 }));
            let _ = drive(f.as_mut(), 1000);
        }
        if sh.entered[id].load(SeqCst) > 0 {
            violation("C03.no_inner_while_open [os_threads]", "a request made while the breaker reports Open (and the clock stands still) reached the wrapped service".into());
        }
    }
    drop(kept);
}
