//! C16 on the real `ReconnectService`, 2-4 OS threads on clones of one service (which share the
//! reconnect state), zero backoff (the sleep of length zero is over at its first poll).
//!
//! A request whose backend refuses every call makes exactly `max_attempts + 1` inner calls and
//! fails; a request whose backend answers makes exactly one and succeeds
//! (`C16.call_bound [os_threads]`, `C16.result [os_threads]`), whatever the other threads do to
//! the shared state in the meantime.

use crate::*;
use tower_layer::Layer;
use tower_resilience_reconnect::{ReconnectConfig, ReconnectLayer, ReconnectPolicy};
use tower_service::Service;

#[derive(Debug)]
pub struct Refused(pub usize);
impl std::fmt::Display for Refused {
    fn fmt(&self, f: &mut std::fmt::Formatter<'_>) -> std::fmt::Result {
        write!(f, "connection refused ({})", self.0)
    }
}
impl std::error::Error for Refused {}

#[derive(Clone)]
struct Backend {
    sh: Arc<Shared>,
}
impl Service<Req> for Backend {
    type Response = usize;
    type Error = Refused;
    type Future = std::future::Ready<Result<usize, Refused>>;
    fn poll_ready(&mut self, _cx: &mut Context<'_>) -> Poll<Result<(), Refused>> {
        Poll::Ready(Ok(()))
    }
    fn call(&mut self, r: Req) -> Self::Future {
        self.sh.entered[r.id].fetch_add(1, SeqCst);
        note(1, r.id);
        std::future::ready(if r.fail { Err(Refused(r.id)) } else { Ok(r.id) })
    }
}

pub fn run(wseed: u64, rt: &tokio::runtime::Runtime) {
    let mut rng = Rng::new(wseed);
    let max_attempts = 1 + rng.below(3) as u32;
    let threads = 2 + rng.below(3) as usize;
    let plans: Vec<Vec<bool>> = (0..threads).map(|_| (0..1 + rng.below(3)).map(|_| rng.chance(1, 2)).collect()).collect();
    let n: usize = plans.iter().map(|p| p.len()).sum();
    println!("MSIM scenario=reconnect wseed={} max_attempts={} plans(fail?)={:?}", wseed, max_attempts, plans);
    let handle = rt.handle().clone();
    let _g = rt.enter();
    let sh = Shared::new(usize::MAX, n);
    let layer = ReconnectLayer::new(ReconnectConfig::builder().policy(ReconnectPolicy::fixed(Duration::ZERO)).max_attempts(max_attempts).build());
    let svc = layer.layer(Backend { sh: sh.clone() });
    let mut joins = Vec::new();
    let mut base = 0usize;
    for plan in plans {
        let mut svc = svc.clone();
        let handle = handle.clone();
        let sh = sh.clone();
        let b = base;
        base += plan.len();
        joins.push(std::thread::spawn(move || {
            let _g = handle.enter();
            for (i, fail) in plan.into_iter().enumerate() {
                let id = b + i;
                let ready = drive(Box::pin(std::future::poll_fn(|cx| svc.poll_ready(cx))).as_mut(), 50);
                if !matches!(ready, Some(Ok(()))) {
                    violation("C16.harness", "reconnect service not ready".into());
                }
                let mut f = Box::pin(svc.call(Req { id, pends: 0, fail, slow_drop: 0, key: 0 }));
                let r = drive(f.as_mut(), 2000);
                let calls = sh.entered[id].load(SeqCst);
                note(if matches!(r, Some(Ok(_))) { 4 } else { 6 }, id);
                if calls > max_attempts as usize + 1 {
                    violation("C16.call_bound [os_threads]", format!("request {}: {} inner calls with max_attempts {} (other requests were being served on other threads)", id, calls, max_attempts));
                }
                match (fail, &r) {
                    (true, Some(Err(_))) if calls == max_attempts as usize + 1 => {}
                    (false, Some(Ok(v))) if calls == 1 && *v == id => {}
                    (_, None) => violation("C16.no_hang [os_threads]", format!("request {} never resolved", id)),
                    _ => violation("C16.result [os_threads]", format!("request {} ({}): {} inner calls, {}, max_attempts {}", id, if fail { "backend refuses every call" } else { "backend answers" }, calls, if matches!(r, Some(Ok(_))) { "succeeded" } else { "failed" }, max_attempts)),
                }
            }
        }));
    }
    for j in joins {
        j.join().expect("caller thread");
    }
}
