//! Engine C (`msim`): real OS threads driving clones of one middleware, executed by Miri.
//!
//! Miri interprets the whole program (library, tokio's semaphore, std's locks and atomics) and
//! owns the thread scheduler: with `-Zmiri-seed=N -Zmiri-preemption-rate=R` the running thread
//! is preempted at the end of a basic block with probability R and the next thread is drawn from
//! the seeded generator, so one (workload seed, Miri seed, rate) triple is one exactly repeatable
//! execution, and threads can be switched *between any two statements*, also inside primitives
//! that have no hook (tokio's `Semaphore`, an atomic or lock that a change brings itself).
//! That is what engines A and B cannot do (DESIGN 15.9, 15.16).
//!
//! usage: msim <scenario> <workload-seed>
//! Exit: 0 held; a violated invariant prints `MSIM-VIOLATION rule=<id> ...` and panics (Miri
//! then exits non-zero and names the seed when run with -Zmiri-many-seeds).
//!
//! No tokio runtime runs: a paused current-thread runtime is only *entered* on every thread (so
//! that `tokio::time::timeout` finds a timer handle); callers are polled with a no-op waker and
//! yield the thread while pending. Scenarios therefore avoid paths that need a reactor turn:
//! waits are either zero (rejection at once) or unbounded (the permit arrives by polling).

use std::future::Future;
use std::pin::Pin;
use std::sync::atomic::{AtomicBool, AtomicUsize, Ordering::SeqCst};
use std::sync::Arc;
use std::task::{Context, Poll, RawWaker, RawWakerVTable, Waker};
use std::time::Duration;

mod adaptive;
mod breaker;
mod budget;
mod coalesce;
mod bulkhead;
mod cache;
mod ratelimiter;
mod reconnect;
mod roundrobin;

// ---------------------------------------------------------------------------------------------
// workload generator: splitmix64 from the workload seed (argv), never from Miri's generator

pub struct Rng(u64);
impl Rng {
    pub fn new(seed: u64) -> Self {
        Rng(seed.wrapping_mul(0x9E37_79B9_7F4A_7C15) ^ 0xD1B5_4A32_D192_ED03)
    }
    pub fn next(&mut self) -> u64 {
        self.0 = self.0.wrapping_add(0x9E37_79B9_7F4A_7C15);
        let mut z = self.0;
        z = (z ^ (z >> 30)).wrapping_mul(0xBF58_476D_1CE4_E5B9);
        z = (z ^ (z >> 27)).wrapping_mul(0x94D0_49BB_1331_11EB);
        z ^ (z >> 31)
    }
    pub fn below(&mut self, n: u64) -> u64 {
        self.next() % n
    }
    pub fn chance(&mut self, num: u64, den: u64) -> bool {
        self.below(den) < num
    }
}

// ---------------------------------------------------------------------------------------------
// polling without an executor

pub fn noop_waker() -> Waker {
    fn clone(_: *const ()) -> RawWaker {
        RawWaker::new(std::ptr::null(), &VT)
    }
    fn noop(_: *const ()) {}
    static VT: RawWakerVTable = RawWakerVTable::new(clone, noop, noop, noop);
    unsafe { Waker::from_raw(RawWaker::new(std::ptr::null(), &VT)) }
}

pub fn poll_once<F: Future + ?Sized>(f: Pin<&mut F>) -> Poll<F::Output> {
    let w = noop_waker();
    let mut cx = Context::from_waker(&w);
    f.poll(&mut cx)
}

/// Poll until ready, yielding the OS thread while pending; `None` after `limit` polls.
pub fn drive<F: Future + ?Sized>(mut f: Pin<&mut F>, limit: usize) -> Option<F::Output> {
    for _ in 0..limit {
        if let Poll::Ready(v) = poll_once(f.as_mut()) {
            return Some(v);
        }
        std::thread::yield_now();
    }
    None
}

// ---------------------------------------------------------------------------------------------
// the wrapped service: counts who is inside, on SeqCst atomics

pub struct Shared {
    pub in_flight: AtomicUsize,
    pub peak: AtomicUsize,
    pub entered_total: AtomicUsize,
    pub max: usize,
    pub violated: AtomicBool,
    pub key_violated: AtomicBool,
    pub per_key: [AtomicUsize; 4],
    /// per request id: how often it reached the wrapped service
    pub entered: Vec<AtomicUsize>,
}

impl Shared {
    pub fn new(max: usize, requests: usize) -> Arc<Self> {
        Arc::new(Shared {
            in_flight: AtomicUsize::new(0),
            peak: AtomicUsize::new(0),
            entered_total: AtomicUsize::new(0),
            max,
            violated: AtomicBool::new(false),
            key_violated: AtomicBool::new(false),
            per_key: [AtomicUsize::new(0), AtomicUsize::new(0), AtomicUsize::new(0), AtomicUsize::new(0)],
            entered: (0..requests).map(|_| AtomicUsize::new(0)).collect(),
        })
    }
}

#[derive(Clone)]
pub struct Inner {
    pub sh: Arc<Shared>,
}

#[derive(Clone, Copy, Debug)]
pub struct Req {
    pub id: usize,
    /// how many polls the inner call stays pending
    pub pends: u32,
    pub fail: bool,
    /// processor yields inside the destructor of the inner future
    pub slow_drop: u32,
    /// coalescing key (coalesce scenario), otherwise 0
    pub key: usize,
}

/// A request is inside the wrapped service from `call()` until its future completes or, if it
/// never completes, until the future's destructor has *returned*; that destructor is slow when
/// the request says so (it gives the processor away a few times first), like a connection
/// that is handed back to a pool. A completed future that is dropped late counts for nothing.
pub struct Guard {
    sh: Arc<Shared>,
    slow_drop: u32,
    done: bool,
    id: usize,
    key: usize,
}
impl Drop for Guard {
    fn drop(&mut self) {
        if self.done {
            return;
        }
        for _ in 0..self.slow_drop {
            std::thread::yield_now();
        }
        self.sh.in_flight.fetch_sub(1, SeqCst);
        self.sh.per_key[self.key % 4].fetch_sub(1, SeqCst);
        note(3, self.id);
    }
}

pub struct InnerFut {
    left: u32,
    fail: bool,
    id: usize,
    g: Guard,
}
impl Future for InnerFut {
    type Output = Result<usize, usize>;
    fn poll(mut self: Pin<&mut Self>, _cx: &mut Context<'_>) -> Poll<Self::Output> {
        if self.g.done {
            panic!("inner future polled after completion");
        }
        if self.left > 0 {
            self.left -= 1;
            return Poll::Pending;
        }
        self.g.done = true;
        self.g.sh.in_flight.fetch_sub(1, SeqCst);
        self.g.sh.per_key[self.g.key % 4].fetch_sub(1, SeqCst);
        note(2, self.id);
        if self.fail {
            Poll::Ready(Err(self.id))
        } else {
            Poll::Ready(Ok(self.id))
        }
    }
}

// ---------------------------------------------------------------------------------------------
// event trace: who entered / left / was answered, in the order it happened (its digest is the
// measure of distinct interleavings and the thing two runs of one execution must agree on)

static TRACE: std::sync::Mutex<Vec<u64>> = std::sync::Mutex::new(Vec::new());

/// kinds: 1 entered, 2 completed, 3 dropped unfinished, 4 answered ok, 5 answered own error,
/// 6 answered inner error, 7 cancelled by its caller, 8 selection
pub fn note(kind: u64, id: usize) {
    TRACE.lock().unwrap().push((kind << 32) | id as u64);
}

/// per event kind (index = kind), for the evidence: how often each thing actually happened
pub fn trace_kind_counts() -> [usize; 9] {
    let t = TRACE.lock().unwrap();
    let mut c = [0usize; 9];
    for e in t.iter() {
        let k = (e >> 32) as usize;
        if k < 9 {
            c[k] += 1;
        }
    }
    c
}

pub fn trace_digest_and_reset() -> (u64, usize) {
    let mut t = TRACE.lock().unwrap();
    let mut h: u64 = 0xcbf2_9ce4_8422_2325;
    for e in t.iter() {
        for b in e.to_le_bytes() {
            h = (h ^ b as u64).wrapping_mul(0x0000_0100_0000_01b3);
        }
    }
    let n = t.len();
    t.clear();
    (h, n)
}

impl tower_service::Service<Req> for Inner {
    type Response = usize;
    type Error = usize;
    type Future = InnerFut;
    fn poll_ready(&mut self, _cx: &mut Context<'_>) -> Poll<Result<(), Self::Error>> {
        Poll::Ready(Ok(()))
    }
    fn call(&mut self, r: Req) -> InnerFut {
        let n = self.sh.in_flight.fetch_add(1, SeqCst) + 1;
        self.sh.peak.fetch_max(n, SeqCst);
        self.sh.entered_total.fetch_add(1, SeqCst);
        if r.id < self.sh.entered.len() {
            self.sh.entered[r.id].fetch_add(1, SeqCst);
        }
        note(1, r.id);
        if self.sh.per_key[r.key % 4].fetch_add(1, SeqCst) + 1 > 1 {
            self.sh.key_violated.store(true, SeqCst);
        }
        if n > self.sh.max {
            self.sh.violated.store(true, SeqCst);
        }
        InnerFut { left: r.pends, fail: r.fail, id: r.id, g: Guard { sh: self.sh.clone(), slow_drop: r.slow_drop, done: false, id: r.id, key: r.key } }
    }
}

static WSEED: std::sync::atomic::AtomicU64 = std::sync::atomic::AtomicU64::new(0);

pub fn violation(rule: &str, what: String) -> ! {
    let (d, n) = trace_digest_and_reset();
    println!("MSIM-VIOLATION rule={} {} (wseed {} trace {:016x}/{})", rule, what, WSEED.load(SeqCst), d, n);
    std::process::exit(101);
}

pub fn paused_runtime() -> tokio::runtime::Runtime {
    tokio::runtime::Builder::new_current_thread().enable_time().start_paused(true).build().expect("runtime")
}

fn main() {
    let args: Vec<String> = std::env::args().collect();
    if args.len() < 3 {
        eprintln!("usage: msim <bulkhead|ratelimiter|roundrobin> <workload-seed | from..to>");
        std::process::exit(2);
    }
    let (w0, w1) = match args[2].split_once("..") {
        Some((a, b)) => (a.parse::<u64>().expect("from"), b.parse::<u64>().expect("to")),
        None => {
            let w = args[2].parse::<u64>().expect("workload seed");
            (w, w + 1)
        }
    };
    let scenario: fn(u64, &tokio::runtime::Runtime) = match args[1].as_str() {
        "bulkhead" => bulkhead::run,
        "budget" => budget::run,
        "reconnect" => reconnect::run,
        "cache" => cache::run,
        "breaker" => breaker::run,
        "coalesce" => coalesce::run,
        "adaptive" => adaptive::run,
        "ratelimiter" => ratelimiter::run,
        "roundrobin" => roundrobin::run,
        other => {
            eprintln!("unknown scenario {}", other);
            std::process::exit(2);
        }
    };
    // one paused runtime for the whole process (building one is the expensive part under Miri)
    let rt = paused_runtime();
    for w in w0..w1 {
        WSEED.store(w, SeqCst);
        scenario(w, &rt);
        let k = trace_kind_counts();
        let (d, n) = trace_digest_and_reset();
        println!(
            "MSIM-OK scenario={} wseed={} trace={:016x}/{} entered={} completed={} dropped_unfinished={} answered_ok={} refused={} inner_error={} cancelled={} selections={}",
            args[1], w, d, n, k[1], k[2], k[3], k[4], k[5], k[6], k[7], k[8]
        );
    }
}
