//! C02 / C15 on the real `RateLimiter`, callers on 2-4 OS threads.
//!
//! The limiter reads tokio's paused clock (verif-hooks feature), which only moves when the main
//! thread advances it. The timeout is zero, so nobody sleeps: every call is decided at its first
//! polls. Shape 0: one window (period one hour). Shape 1: the main thread first uses part of a
//! window (period 50 ms), lets two and a half periods pass with no call, and then the threads
//! burst at one instant: the refresh itself is raced. With N calls in the burst and limit L:
//! * `C02.window_partition [os_threads]`: at most L calls reach the wrapped service,
//! * `C15.admit_at_once [os_threads]`: exactly min(N, L) do (a call may only be rejected when the
//!   window has no spare capacity, and permits are never handed back inside a window),
//! * `C15.rejected_never_inner [os_threads]` / `C15.admitted_once [os_threads]`: a call answered
//!   with the rate-limited error never reached the wrapped service, an admitted one exactly once.

use crate::*;
use tower_layer::Layer;
use tower_resilience_ratelimiter::{RateLimiterLayer, WindowType};
use tower_service::Service;

pub fn run(wseed: u64, rt: &tokio::runtime::Runtime) {
    let mut rng = Rng::new(wseed);
    // the fixed window (the default) in half of the workloads
    let window = if rng.chance(1, 2) { 0 } else { 1 + rng.below(2) };
    let limit = 1 + rng.below(3) as usize;
    let threads = 2 + rng.below(3) as usize;
    let per: Vec<usize> = (0..threads).map(|_| 1 + rng.below(2) as usize).collect();
    let n: usize = per.iter().sum();
    let shape = if rng.chance(2, 3) { 1 } else { 0 };
    // an exhausted window before the idle gap in half of the refresh workloads
    let prefill = if shape == 1 { if rng.chance(1, 2) { limit } else { rng.below(limit as u64 + 2) as usize } } else { 0 };
    println!("MSIM scenario=ratelimiter wseed={} window={} limit={} per_thread={:?} shape={} prefill={}", wseed, window, limit, per, shape, prefill);

    let handle = rt.handle().clone();
    let _g = rt.enter();
    let sh = Shared::new(usize::MAX, n + prefill);
    let layer = RateLimiterLayer::builder()
        .limit_for_period(limit)
        .refresh_period(if shape == 1 { Duration::from_millis(50) } else { Duration::from_secs(3600) })
        .timeout_duration(Duration::ZERO)
        .window_type(match window {
            0 => WindowType::Fixed,
            1 => WindowType::SlidingLog,
            _ => WindowType::SlidingCounter,
        })
        .build();
    let svc = layer.layer(Inner { sh: sh.clone() });
    let admitted = Arc::new(AtomicUsize::new(0));
    if shape == 1 {
        // part of a window is used, then the limiter is idle for two and a half periods
        let mut first = svc.clone();
        for k in 0..prefill {
            let mut f = Box::pin(first.call(Req { id: n + k, pends: 0, fail: false, slow_drop: 0, key: 0 }));
            let _ = drive(f.as_mut(), 1000);
        }
        rt.block_on(tokio::time::advance(Duration::from_millis(125)));
        let (d, _) = (sh.entered_total.swap(0, SeqCst), 0);
        let _ = d;
    }
    let mut joins = Vec::new();
    let mut base = 0usize;
    for k in per {
        let mut svc = svc.clone();
        let handle = handle.clone();
        let sh = sh.clone();
        let admitted = admitted.clone();
        let b = base;
        base += k;
        joins.push(std::thread::spawn(move || {
            let _g = handle.enter();
            for i in 0..k {
                let id = b + i;
                let mut f = Box::pin(svc.call(Req { id, pends: 0, fail: false, slow_drop: 0, key: 0 }));
                match drive(f.as_mut(), 10_000) {
                    None => violation("C15.decided_within_timeout [os_threads]", format!("request {} undecided with a zero timeout", id)),
                    Some(Ok(_)) => {
                        note(4, id);
                        admitted.fetch_add(1, SeqCst);
                        if sh.entered[id].load(SeqCst) != 1 {
                            violation("C15.admitted_once [os_threads]", format!("request {} admitted, reached the wrapped service {} times", id, sh.entered[id].load(SeqCst)));
                        }
                    }
                    Some(Err(_)) => {
                        note(5, id);
                        if sh.entered[id].load(SeqCst) != 0 {
                            violation("C15.rejected_never_inner [os_threads]", format!("request {} rejected and reached the wrapped service", id));
                        }
                    }
                }
            }
        }));
    }
    for j in joins {
        j.join().expect("caller thread");
    }
    let inside = sh.entered_total.load(SeqCst);
    if inside > limit {
        violation("C02.window_partition [os_threads]", format!("{} calls reached the wrapped service within one period, limit_for_period {}", inside, limit));
    }
    if inside != n.min(limit) || admitted.load(SeqCst) != inside {
        violation("C15.admit_at_once [os_threads]", format!("{} of {} calls admitted within one period, limit_for_period {}", inside, n, limit));
    }
}
