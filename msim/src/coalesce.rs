//! C11 on the real `CoalesceService`, requests for 1-2 keys from 2-4 OS threads, nobody cancels.
//!
//! * `C11.one_in_flight_per_key [os_threads]`: checked by the wrapped service at every entry,
//! * `C11.shared_result [os_threads]`: every request gets the result of an inner call made for
//!   its own key; with no leader dropped nobody gets LeaderCancelled / RecvError; a request that
//!   caused an inner call of its own gets that call's result,
//! * `C11.no_hang [os_threads]`: every request resolves,
//! * `C11.fresh_call_after_completion [os_threads]`: when all threads are done the key table is
//!   empty again: a further request per key makes its own inner call.

use crate::*;
use tower_layer::Layer;
use tower_resilience_coalesce::{CoalesceError, CoalesceLayer};
use tower_service::Service;

pub fn run(wseed: u64, rt: &tokio::runtime::Runtime) {
    let mut rng = Rng::new(wseed);
    let nkeys = 1 + rng.below(2) as usize;
    let threads = 2 + rng.below(3) as usize;
    // (key, pends, fail) per request
    let plans: Vec<Vec<(usize, u32, bool)>> = (0..threads).map(|_| (0..1 + rng.below(2)).map(|_| (rng.below(nkeys as u64) as usize, rng.below(3) as u32, rng.chance(1, 4))).collect()).collect();
    let n: usize = plans.iter().map(|p| p.len()).sum();
    println!("MSIM scenario=coalesce wseed={} keys={} plans={:?}", wseed, nkeys, plans);
    let handle = rt.handle().clone();
    let _g = rt.enter();
    let sh = Shared::new(usize::MAX, n + nkeys);
    let mut key_of: Vec<usize> = plans.iter().flatten().map(|p| p.0).collect();
    key_of.extend(0..nkeys);
    let key_of = Arc::new(key_of);
    let svc = CoalesceLayer::new(|r: &Req| r.key).layer(Inner { sh: sh.clone() });
    let mut joins = Vec::new();
    let mut base = 0usize;
    for plan in plans {
        let mut svc = svc.clone();
        let handle = handle.clone();
        let sh = sh.clone();
        let key_of = key_of.clone();
        let b = base;
        base += plan.len();
        joins.push(std::thread::spawn(move || {
            let _g = handle.enter();
            for (i, (key, pends, fail)) in plan.into_iter().enumerate() {
                let id = b + i;
                let mut f = Box::pin(svc.call(Req { id, pends, fail, slow_drop: 0, key }));
                match drive(f.as_mut(), 20_000) {
                    None => violation("C11.no_hang [os_threads]", format!("request {} (key {}) never resolved", id, key)),
                    Some(Ok(from)) | Some(Err(CoalesceError::Service(from))) => {
                        note(4, id);
                        if from >= key_of.len() || key_of[from] != key {
                            violation("C11.shared_result [os_threads]", format!("request {} (key {}) got the result of the call made by request {}, which is for another key", id, key, from));
                        }
                        if sh.entered[id].load(SeqCst) > 0 && from != id {
                            violation("C11.shared_result [own_call]", format!("request {} made an inner call of its own and got the result of request {}", id, from));
                        }
                        if sh.entered[id].load(SeqCst) > 1 {
                            violation("C11.one_inner_call [os_threads]", format!("request {} reached the wrapped service {} times", id, sh.entered[id].load(SeqCst)));
                        }
                    }
                    Some(Err(e)) => violation("C11.shared_result [os_threads]", format!("request {} (key {}) got {} although no leader was dropped or panicked", id, key, if matches!(e, CoalesceError::LeaderCancelled) { "LeaderCancelled" } else { "RecvError" })),
                }
            }
        }));
    }
    for j in joins {
        j.join().expect("caller thread");
    }
    if sh.key_violated.load(SeqCst) {
        violation("C11.one_in_flight_per_key [os_threads]", "two inner calls for one key in flight at the same time".into());
    }
    let mut svc = svc.clone();
    for key in 0..nkeys {
        let id = n + key;
        let mut f = Box::pin(svc.call(Req { id, pends: 0, fail: false, slow_drop: 0, key }));
        let r = drive(f.as_mut(), 1000);
        if sh.entered[id].load(SeqCst) != 1 || !matches!(r, Some(Ok(from)) if from == id) {
            violation("C11.fresh_call_after_completion [os_threads]", format!("a request for key {} after everything had completed did not make its own inner call", key));
        }
    }
}
