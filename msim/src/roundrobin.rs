//! C18 (selection part) on the real `HealthCheckWrapper`: round-robin selection from 2-3 OS
//! threads. A real (paused-clock) current-thread runtime first runs the background checks until
//! every resource is published healthy and stops them; then the threads select concurrently.
//!
//! * `C18.round_robin_even [os_threads]`: N selections over R eligible resources give every
//!   resource floor(N/R) or ceil(N/R) of them,
//! * `C18.selection_eligible [os_threads]`: only eligible resources are returned.

use crate::*;
use tower_resilience_healthcheck::{HealthCheckWrapper, HealthStatus, SelectionStrategy};

pub fn run(wseed: u64, rt: &tokio::runtime::Runtime) {
    let mut rng = Rng::new(wseed);
    let nres = 2 + rng.below(3) as usize;
    // one resource may be unhealthy (never eligible)
    let bad: Option<usize> = if rng.chance(1, 3) { Some(rng.below(nres as u64) as usize) } else { None };
    let threads = 2 + rng.below(2) as usize;
    let per = 1 + rng.below(3) as usize;
    let usable = rng.chance(1, 2);
    println!("MSIM scenario=roundrobin wseed={} resources={} bad={:?} threads={} per_thread={} get_usable={}", wseed, nres, bad, threads, per, usable);

    let checker = move |r: &u32| {
        let r = *r as usize;
        async move {
            if Some(r) == bad {
                HealthStatus::Unhealthy
            } else {
                HealthStatus::Healthy
            }
        }
    };
    let mut b = HealthCheckWrapper::builder()
        .with_checker(checker)
        .with_interval(Duration::from_millis(50))
        .with_timeout(Duration::from_millis(20))
        .with_initial_delay(Duration::ZERO)
        .with_failure_threshold(1)
        .with_success_threshold(1)
        .with_selection_strategy(SelectionStrategy::RoundRobin);
    for r in 0..nres {
        b = b.with_context(r as u32, format!("r{}", r));
    }
    let w = Arc::new(b.build());
    {
        let w = w.clone();
        rt.block_on(async move {
            w.start().await;
            tokio::time::sleep(Duration::from_millis(120)).await;
            w.stop().await;
            tokio::time::sleep(Duration::from_millis(120)).await;
        });
    }
    let handle = rt.handle().clone();
    let _g = rt.enter();
    let counts: Arc<Vec<AtomicUsize>> = Arc::new((0..nres).map(|_| AtomicUsize::new(0)).collect());
    let mut joins = Vec::new();
    for _ in 0..threads {
        let w = w.clone();
        let handle = handle.clone();
        let counts = counts.clone();
        joins.push(std::thread::spawn(move || {
            let _g = handle.enter();
            for _ in 0..per {
                let got = if usable {
                    let mut f = Box::pin(w.get_usable());
                    drive(f.as_mut(), 10_000)
                } else {
                    let mut f = Box::pin(w.get_healthy());
                    drive(f.as_mut(), 10_000)
                };
                match got {
                    None => violation("C18.selection_hang [os_threads]", "a selection never returned".into()),
                    Some(None) => violation("C18.selection_eligible [os_threads]", "nothing selected though resources are healthy".into()),
                    Some(Some(r)) => {
                        note(8, r as usize);
                        counts[r as usize].fetch_add(1, SeqCst);
                    }
                }
            }
        }));
    }
    for j in joins {
        j.join().expect("selector thread");
    }
    let n = threads * per;
    let elig = nres - bad.map_or(0, |_| 1);
    let (lo, hi) = (n / elig, (n + elig - 1) / elig);
    for r in 0..nres {
        let c = counts[r].load(SeqCst);
        if Some(r) == bad {
            if c != 0 {
                violation("C18.selection_eligible [os_threads]", format!("unhealthy resource {} selected {} times", r, c));
            }
        } else if c < lo || c > hi {
            let all: Vec<usize> = counts.iter().map(|x| x.load(SeqCst)).collect();
            violation("C18.round_robin_even [os_threads]", format!("{} selections over {} eligible resources: counts {:?}", n, elig, all));
        }
    }
}
