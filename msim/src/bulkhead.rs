//! C01 / C07 on the real `Bulkhead`, callers on 2-3 OS threads.
//!
//! Invariants:
//! * `C01.in_flight_le_max [os_threads]`: checked by the wrapped service at every entry.
//! * `C07.rejected_never_inner [os_threads]`: a request answered with the bulkhead's own error
//!   was never inside the wrapped service.
//! * `C07.capacity_restored [os_threads]`: after all threads have joined (nothing in flight)
//!   `max` simultaneous calls are admitted at their first poll, and the one after them is not.
//! * `C07.no_hang [os_threads]`: with an unbounded wait every caller that is not cancelled gets
//!   in once the others are done.

use crate::*;
use tower_layer::Layer;
use tower_resilience_bulkhead::BulkheadLayer;
use tower_service::Service;

#[derive(Clone, Copy, Debug)]
enum Op {
    /// call and drive to the end
    Run { pends: u32, fail: bool, slow_drop: u32 },
    /// call, poll this many times, then drop the future (cancellation, waiting or running)
    Cancel { polls: u32, pends: u32, slow_drop: u32 },
    /// create the call future and drop it without a poll
    DropUnpolled,
}

pub fn run(wseed: u64, rt: &tokio::runtime::Runtime) {
    let mut rng = Rng::new(wseed);
    let max = if rng.chance(3, 5) { 1 } else { 2 + rng.below(2) as usize };
    // 0 = reject when full (zero wait), 1 = wait without limit, 2 = the `reject_when_full` preset
    let mode = rng.below(3);
    let threads = 2 + rng.below(2) as usize;
    let mut plans: Vec<Vec<Op>> = Vec::new();
    let mut nreq = 0usize;
    for _ in 0..threads {
        let n = 1 + rng.below(2);
        let mut v = Vec::new();
        for _ in 0..n {
            let op = match rng.below(8) {
                0..=3 => Op::Run { pends: rng.below(3) as u32, fail: rng.chance(1, 4), slow_drop: if rng.chance(1, 3) { 1 + rng.below(3) as u32 } else { 0 } },
                4..=6 => Op::Cancel { polls: 1 + rng.below(3) as u32, pends: 2 + rng.below(3) as u32, slow_drop: if rng.chance(3, 4) { 1 + rng.below(4) as u32 } else { 0 } },
                _ => Op::DropUnpolled,
            };
            v.push(op);
            nreq += 1;
        }
        plans.push(v);
    }
    println!("MSIM scenario=bulkhead wseed={} max={} mode={} plans={:?}", wseed, max, mode, plans);

    let handle = rt.handle().clone();
    let _g = rt.enter();
    let sh = Shared::new(max, nreq + max + 1);
    let b = BulkheadLayer::builder().max_concurrent_calls(max);
    let b = match mode {
        0 => b.max_wait_duration(Duration::ZERO),
        1 => b,
        _ => b.reject_when_full(),
    };
    let svc = b.build().layer(Inner { sh: sh.clone() });

    let mut next_id = 0usize;
    let mut joins = Vec::new();
    for plan in plans {
        let mut svc = svc.clone();
        let handle = handle.clone();
        let sh = sh.clone();
        let base = next_id;
        next_id += plan.len();
        joins.push(std::thread::spawn(move || {
            let _g = handle.enter();
            for (i, op) in plan.iter().enumerate() {
                let id = base + i;
                match *op {
                    Op::Run { pends, fail, slow_drop } => {
                        let mut f = svc.call(Req { id, pends, fail, slow_drop, key: 0 });
                        let first = poll_once(f.as_mut());
                        if mode != 1 && first.is_pending() && sh.entered[id].load(SeqCst) == 0 {
                            violation("C07.reject_instant [os_threads]", format!("request {} neither admitted nor rejected by its first poll though max_wait_duration is zero", id));
                        }
                        let rest = match first {
                            Poll::Ready(v) => Some(v),
                            Poll::Pending => drive(f.as_mut(), 20_000),
                        };
                        match rest {
                            None => violation("C07.no_hang [os_threads]", format!("request {} never resolved", id)),
                            Some(Ok(v)) => {
                                note(4, id);
                                if v != id {
                                    violation("C07.result [os_threads]", format!("request {} got the answer of {}", id, v));
                                }
                            }
                            Some(Err(e)) => {
                                let own = e.is_bulkhead();
                                note(if own { 5 } else { 6 }, id);
                                let entered = sh.entered[id].load(SeqCst);
                                if own && entered > 0 {
                                    violation("C07.rejected_never_inner [os_threads]", format!("request {} was rejected and reached the wrapped service", id));
                                }
                                if own && mode == 1 {
                                    violation("C07.reject_only_by_timeout [os_threads]", format!("request {} rejected though the wait is unbounded", id));
                                }
                                if !own && !fail {
                                    violation("C07.result [os_threads]", format!("request {} failed though the wrapped service answered", id));
                                }
                            }
                        }
                    }
                    Op::Cancel { polls, pends, slow_drop } => {
                        let mut f = svc.call(Req { id, pends: pends + polls, fail: false, slow_drop, key: 0 });
                        for _ in 0..polls {
                            if poll_once(f.as_mut()).is_ready() {
                                break;
                            }
                            std::thread::yield_now();
                        }
                        note(7, id);
                        drop(f);
                    }
                    Op::DropUnpolled => {
                        let f = svc.call(Req { id, pends: 0, fail: false, slow_drop: 0, key: 0 });
                        drop(f);
                    }
                }
            }
        }));
    }
    for j in joins {
        j.join().expect("caller thread");
    }
    if sh.violated.load(SeqCst) {
        violation("C01.in_flight_le_max [os_threads]", format!("peak {} inside the wrapped service, max_concurrent_calls {}", sh.peak.load(SeqCst), max));
    }
    if sh.in_flight.load(SeqCst) != 0 {
        violation("C01.harness", "in-flight counter not zero after all callers are gone".into());
    }
    // full-capacity probe: nothing is in flight, nobody is queued
    let mut svc = svc.clone();
    let mut held = Vec::new();
    for k in 0..max {
        let id = nreq + k;
        let mut f = svc.call(Req { id, pends: 1_000_000, fail: false, slow_drop: 0, key: 0 });
        let _ = poll_once(f.as_mut());
        if sh.entered[id].load(SeqCst) != 1 {
            violation("C07.capacity_restored [os_threads]", format!("probe {} of {} not admitted at once with nothing in flight", k + 1, max));
        }
        held.push(f);
    }
    if mode != 1 {
        let id = nreq + max;
        let mut f = svc.call(Req { id, pends: 0, fail: false, slow_drop: 0, key: 0 });
        match poll_once(f.as_mut()) {
            Poll::Ready(Err(e)) if e.is_bulkhead() => {}
            _ => violation("C07.reject_instant [os_threads]", "a caller over capacity with zero wait was not rejected at once".into()),
        }
        if sh.entered[id].load(SeqCst) != 0 {
            violation("C01.in_flight_le_max [os_threads]", "probe over capacity reached the wrapped service".into());
        }
    }
    drop(held);
}
