//! C10 on the real `Cache`, 2-4 OS threads looking up 1-2 keys; the TTL is an hour on the paused
//! clock (verif-hooks) and the capacity 64, so nothing expires and nothing is evicted.
//!
//! * `C10.hit_value [os_threads]`: every answer was produced by an inner call for the same key; a
//!   request that went to the wrapped service itself (a miss) gets its own call's answer,
//! * `C10.hit_expected [os_threads]`: once all threads are done, a key for which a value was
//!   stored is found (the final lookup does not reach the wrapped service),
//! * `C10.size_le_max [os_threads]`: `len()` never exceeds the number of keys.

use crate::*;
use tower_layer::Layer;
use tower_resilience_cache::{CacheLayer, EvictionPolicy};
use tower_service::Service;

pub fn run(wseed: u64, rt: &tokio::runtime::Runtime) {
    let mut rng = Rng::new(wseed);
    let nkeys = 1 + rng.below(2) as usize;
    let policy = rng.below(3);
    let threads = 2 + rng.below(3) as usize;
    let plans: Vec<Vec<(usize, u32)>> = (0..threads).map(|_| (0..1 + rng.below(3)).map(|_| (rng.below(nkeys as u64) as usize, rng.below(3) as u32)).collect()).collect();
    let n: usize = plans.iter().map(|p| p.len()).sum();
    println!("MSIM scenario=cache wseed={} keys={} policy={} plans={:?}", wseed, nkeys, policy, plans);
    let handle = rt.handle().clone();
    let _g = rt.enter();
    let sh = Shared::new(usize::MAX, n + nkeys);
    let mut key_of: Vec<usize> = plans.iter().flatten().map(|p| p.0).collect();
    key_of.extend(0..nkeys);
    let key_of = Arc::new(key_of);
    let layer = CacheLayer::<Req, usize>::builder()
        .max_size(64)
        .ttl(Duration::from_secs(3600))
        .eviction_policy(match policy {
            0 => EvictionPolicy::Lru,
            1 => EvictionPolicy::Lfu,
            _ => EvictionPolicy::Fifo,
        })
        .key_extractor(|r: &Req| r.key)
        .build();
    let svc = layer.layer(Inner { sh: sh.clone() });
    let mut joins = Vec::new();
    let mut base = 0usize;
    for plan in plans {
        let mut svc = svc.clone();
        let handle = handle.clone();
        let sh = sh.clone();
        let key_of = key_of.clone();
        let b = base;
        base += plan.len();
        joins.push(std::thread::spawn(move || {
            let _g = handle.enter();
            for (i, (key, pends)) in plan.into_iter().enumerate() {
                let id = b + i;
                let ready = drive(Box::pin(std::future::poll_fn(|cx| svc.poll_ready(cx))).as_mut(), 50);
                if !matches!(ready, Some(Ok(()))) {
                    violation("C10.harness", "cache not ready".into());
                }
                let mut f = Box::pin(svc.call(Req { id, pends, fail: false, slow_drop: 0, key }));
                match drive(f.as_mut(), 10_000) {
                    Some(Ok(from)) => {
                        let miss = sh.entered[id].load(SeqCst) > 0;
                        note(if miss { 4 } else { 8 }, id);
                        if from >= key_of.len() || key_of[from] != key {
                            violation("C10.hit_value [os_threads]", format!("request {} (key {}) got the value produced for request {}, which is for another key", id, key, from));
                        }
                        if miss && from != id {
                            violation("C10.hit_value [own_call]", format!("request {} went to the wrapped service itself and got the value of request {}", id, from));
                        }
                    }
                    _ => violation("C10.no_hang [os_threads]", format!("request {} did not resolve with a value", id)),
                }
            }
        }));
    }
    for j in joins {
        j.join().expect("caller thread");
    }
    let mut svc = svc.clone();
    for key in 0..nkeys {
        if !key_of[..n].contains(&key) {
            continue;
        }
        let id = n + key;
        let _ = drive(Box::pin(std::future::poll_fn(|cx| svc.poll_ready(cx))).as_mut(), 50);
        let mut f = Box::pin(svc.call(Req { id, pends: 0, fail: false, slow_drop: 0, key }));
        let r = drive(f.as_mut(), 1000);
        if sh.entered[id].load(SeqCst) != 0 {
            violation("C10.hit_expected [os_threads]", format!("key {}: a value was stored, nothing expires or is evicted, yet the next lookup went to the wrapped service", key));
        }
        match r {
            Some(Ok(from)) if from < n && key_of[from] == key => {}
            other => violation("C10.hit_value [os_threads]", format!("key {}: the final hit returned {:?}", key, other.map(|x| x.ok()))),
        }
    }
}
