//! C13 (service part) on the real `AdaptiveService`, 2-4 OS threads, limit >= threads.
//!
//! * `C13.ready_iff_capacity [os_threads]`: with fewer than `limit` calls in flight readiness is
//!   never refused (the limit is at least the number of threads, so it never may be),
//! * `C13.in_flight_exact [os_threads]`: once nothing is running `in_flight()` is zero,
//! * `C13.limit_in_bounds [os_threads]`: the limit read by any thread stays in [min, max].

use crate::*;
use tower_layer::Layer;
use tower_resilience_adaptive::{AdaptiveLimiterLayer, Aimd, Algorithm, Vegas};
use tower_service::Service;

pub fn run(wseed: u64, rt: &tokio::runtime::Runtime) {
    let mut rng = Rng::new(wseed);
    let threads = 2 + rng.below(3) as usize;
    let min = threads + rng.below(2) as usize;
    let max = min + rng.below(3) as usize;
    let initial = min + rng.below((max - min) as u64 + 1) as usize;
    let vegas = rng.chance(1, 2);
    // per request: (pends, fail, cancel after so many polls or 0)
    let plans: Vec<Vec<(u32, bool, u32)>> = (0..threads).map(|_| (0..1 + rng.below(3)).map(|_| (rng.below(3) as u32, rng.chance(1, 3), if rng.chance(1, 4) { 1 + rng.below(2) as u32 } else { 0 })).collect()).collect();
    let n: usize = plans.iter().map(|p| p.len()).sum();
    println!("MSIM scenario=adaptive wseed={} vegas={} min={} initial={} max={} plans={:?}", wseed, vegas, min, initial, max, plans);
    let handle = rt.handle().clone();
    let _g = rt.enter();
    let sh = Shared::new(usize::MAX, n);
    let alg = if vegas {
        Algorithm::Vegas(Vegas::builder().initial_limit(initial).min_limit(min).max_limit(max).build())
    } else {
        Algorithm::Aimd(Aimd::builder().initial_limit(initial).min_limit(min).max_limit(max).build())
    };
    let svc = AdaptiveLimiterLayer::new(alg).layer(Inner { sh: sh.clone() });
    let probe = svc.clone();
    let mut joins = Vec::new();
    let mut base = 0usize;
    for plan in plans {
        let mut svc = svc.clone();
        let handle = handle.clone();
        let b = base;
        base += plan.len();
        joins.push(std::thread::spawn(move || {
            let _g = handle.enter();
            for (i, (pends, fail, cancel)) in plan.into_iter().enumerate() {
                let id = b + i;
                let ready = drive(Box::pin(std::future::poll_fn(|cx| svc.poll_ready(cx))).as_mut(), 1);
                if !matches!(ready, Some(Ok(()))) {
                    violation("C13.ready_iff_capacity [os_threads]", format!("request {}: readiness refused though fewer than min_limit = {} callers exist", id, min));
                }
                let lim = svc.limit();
                if lim < min || lim > max {
                    violation("C13.limit_in_bounds [os_threads]", format!("limit {} outside [{}, {}]", lim, min, max));
                }
                let mut f = Box::pin(svc.call(Req { id, pends: pends + cancel, fail, slow_drop: 0, key: 0 }));
                if cancel > 0 {
                    for _ in 0..cancel {
                        let _ = poll_once(f.as_mut());
                        std::thread::yield_now();
                    }
                    note(7, id);
                    drop(f);
                } else if drive(f.as_mut(), 10_000).is_none() {
                    violation("C13.no_hang [os_threads]", format!("request {} never resolved", id));
                } else {
                    note(4, id);
                }
            }
        }));
    }
    for j in joins {
        j.join().expect("caller thread");
    }
    if probe.in_flight() != 0 || sh.in_flight.load(SeqCst) != 0 {
        violation("C13.in_flight_exact [os_threads]", format!("nothing is running, in_flight() reports {} ({} inside the wrapped service)", probe.in_flight(), sh.in_flight.load(SeqCst)));
    }
    let lim = probe.limit();
    if lim < min || lim > max {
        violation("C13.limit_in_bounds [os_threads]", format!("final limit {} outside [{}, {}]", lim, min, max));
    }
}
