//! C08 on the real retry budgets, 2-4 OS threads issuing withdrawals and deposits.
//!
//! Checked when all threads have joined (a quiescent state, so the counts are exact):
//! * `C08.conservation [os_threads]`: granted x price + final balance <= initial balance +
//!   deposits x amount (tokens only come from deposits; a refunded or duplicated token breaks it),
//! * `C08.max_balance [os_threads]`: the final balance is at most the configured maximum,
//! * `C08.no_token_lost [os_threads]`: when the maximum cannot have capped any deposit
//!   (initial + all deposits <= maximum) the equation is exact,
//! * `C08.refused_only_when_short [os_threads]`: without any deposit in the run, exactly
//!   min(attempts, initial / price) withdrawals are granted.
//! A balance observed by a thread in between never exceeds the maximum either.

use crate::*;
use tower_resilience_retry::{AimdBudget, RetryBudget, TokenBucketBudget};

pub fn run(wseed: u64, _rt: &tokio::runtime::Runtime) {
    let mut rng = Rng::new(wseed);
    let aimd = rng.chance(1, 2);
    let threads = 2 + rng.below(3) as usize;
    let max = 1 + rng.below(4) as usize;
    let (initial, price, amount, budget): (usize, usize, usize, Arc<dyn RetryBudget>) = if aimd {
        let price = 1 + rng.below(2) as usize;
        let amount = 1 + rng.below(2) as usize;
        // factor 1.0 keeps the ceiling where it is, so the cap is the configured maximum
        (max, price, amount, Arc::new(AimdBudget::new(0, max, amount, price, 1.0)))
    } else {
        let initial = rng.below(max as u64 + 1) as usize;
        (initial, 1, 1, Arc::new(TokenBucketBudget::new(10.0, max, initial)))
    };
    // per thread: 1-4 operations, true = withdraw
    let no_deposits = rng.chance(1, 4);
    let plans: Vec<Vec<bool>> = (0..threads).map(|_| (0..1 + rng.below(4)).map(|_| no_deposits || rng.chance(3, 5)).collect()).collect();
    println!("MSIM scenario=budget wseed={} aimd={} max={} initial={} price={} amount={} plans={:?}", wseed, aimd, max, initial, price, amount, plans);
    let granted = Arc::new(AtomicUsize::new(0));
    let attempts: usize = plans.iter().flatten().filter(|w| **w).count();
    let deposits: usize = plans.iter().flatten().filter(|w| !**w).count();
    let mut joins = Vec::new();
    for (t, plan) in plans.into_iter().enumerate() {
        let b = budget.clone();
        let granted = granted.clone();
        joins.push(std::thread::spawn(move || {
            for w in plan {
                if w {
                    if b.try_withdraw() {
                        granted.fetch_add(1, SeqCst);
                        note(4, t);
                    } else {
                        note(5, t);
                    }
                } else {
                    b.deposit();
                    note(6, t);
                }
                let seen = b.balance();
                if seen > max {
                    violation("C08.max_balance [os_threads]", format!("balance {} observed, maximum {}", seen, max));
                }
            }
        }));
    }
    for j in joins {
        j.join().expect("budget thread");
    }
    let g = granted.load(SeqCst);
    let fin = budget.balance();
    if g * price + fin > initial + deposits * amount {
        violation("C08.conservation [os_threads]", format!("{} withdrawals of {} granted, final balance {}, but only {} initial + {} deposits of {}", g, price, fin, initial, deposits, amount));
    }
    if fin > max {
        violation("C08.max_balance [os_threads]", format!("final balance {}, maximum {}", fin, max));
    }
    if initial + deposits * amount <= max && g * price + fin != initial + deposits * amount {
        violation("C08.no_token_lost [os_threads]", format!("{} granted x {} + final {} != {} initial + {} deposits x {} though the maximum {} was never reached", g, price, fin, initial, deposits, amount, max));
    }
    if deposits == 0 && g != attempts.min(initial / price) {
        violation("C08.refused_only_when_short [os_threads]", format!("{} of {} withdrawals granted from {} tokens at price {}", g, attempts, initial, price));
    }
}
