//! The instrumented wrapped ("inner") service: a stub whose behaviour is scripted by the
//! scenario and which logs everything the oracles need.

use crate::world::{self, Ev};
use serde::{Deserialize, Serialize};
use std::future::Future;
use std::pin::Pin;
use std::task::{Context, Poll};
use std::time::Duration;

#[derive(Clone, Debug, PartialEq, Eq, Hash)]
pub struct Req {
    pub id: u32,
    pub key: u32,
}

#[derive(Clone, Debug, PartialEq, Eq, Hash)]
pub struct Resp {
    pub req: u32,
    pub serial: u64,
    pub svc: u8,
}

/// Error kinds (meaning is given by each property's predicate): 0 retryable / connection,
/// 1 non-retryable / other, 2.. extra classes; 250 = readiness error.
#[derive(Clone, Debug, PartialEq, Eq, Hash)]
pub struct SimErr {
    pub req: u32,
    pub serial: u64,
    pub kind: u8,
    pub svc: u8,
}

impl std::fmt::Display for SimErr {
    fn fmt(&self, f: &mut std::fmt::Formatter<'_>) -> std::fmt::Result {
        write!(f, "simerr(req={},serial={},kind={})", self.req, self.serial, self.kind)
    }
}
/// kind 7: an application-level error that was *caused by* a connection failure: its `source()`
/// is an error of kind 0. A predicate is asked about the error itself, not about its causes.
pub const CAUSED_BY_CONN_KIND: u8 = 7;
static CONN_CAUSE: SimErr = SimErr { req: u32::MAX, serial: 0, kind: 0, svc: 0 };
impl std::error::Error for SimErr {
    fn source(&self) -> Option<&(dyn std::error::Error + 'static)> {
        if self.kind == CAUSED_BY_CONN_KIND {
            Some(&CONN_CAUSE)
        } else {
            None
        }
    }
}

pub const READY_ERR_KIND: u8 = 250;

#[derive(Clone, Copy, Debug, Serialize, Deserialize, PartialEq, Eq, Hash)]
pub enum Outcome {
    Ok,
    Err(u8),
    Panic,
    Never,
    /// panic synchronously inside `Service::call`, before a future is returned
    PanicInCall,
}

#[derive(Clone, Copy, Debug, Serialize, Deserialize, PartialEq, Eq, Hash)]
pub struct Behaviour {
    pub lat_ms: u64,
    pub out: Outcome,
    #[serde(default)]
    pub yields: u8,
}

impl Default for Behaviour {
    fn default() -> Self {
        Behaviour {
            lat_ms: 0,
            out: Outcome::Ok,
            yields: 0,
        }
    }
}

#[derive(Clone, Copy, Debug, PartialEq, Eq, Hash)]
pub enum EndHow {
    Ok,
    Err(u8),
    Dropped,
    Panicked,
}

/// Marker payload for scripted panics (silenced by the panic hook).
pub struct SimPanic;

/// A yield that the scheduler does not mistake for a busy-wait.
pub struct SimYield(bool);
pub fn sim_yield() -> SimYield {
    SimYield(false)
}
impl Future for SimYield {
    type Output = ();
    fn poll(mut self: Pin<&mut Self>, cx: &mut Context<'_>) -> Poll<()> {
        if self.0 {
            Poll::Ready(())
        } else {
            self.0 = true;
            world::with(|w| w.intentional_yield = true);
            cx.waker().wake_by_ref();
            Poll::Pending
        }
    }
}

/// The latency phase of a *busy* inner call: at every poll before `due` it takes units from
/// tokio's cooperative budget until none is left (what a loop over an always-ready tokio
/// resource does), so it returns `Pending` with the budget exhausted. Each such poll costs one
/// virtual millisecond (the scheduler moves the clock). Outside a budgeted simulated task (e.g.
/// inside a task the library spawned, where nothing would move the clock) it simply sleeps.
struct BusyWait {
    due: tokio::time::Instant,
    sleep: Option<Pin<Box<tokio::time::Sleep>>>,
    announced: bool,
}

impl Future for BusyWait {
    type Output = ();
    fn poll(mut self: Pin<&mut Self>, cx: &mut Context<'_>) -> Poll<()> {
        if tokio::time::Instant::now() >= self.due {
            return Poll::Ready(());
        }
        let budgeted = world::with(|w| w.cur_task >= 0 && w.constrained_now && !w.ended);
        if budgeted && !self.announced {
            // tell the scheduler first (a plain yield): a task that is about to hog the thread
            // runs after the others that are runnable at this instant
            self.announced = true;
            world::with(|w| {
                w.busy_mark = true;
                w.intentional_yield = true;
            });
            cx.waker().wake_by_ref();
            return Poll::Pending;
        }
        if budgeted {
            for _ in 0..1024 {
                match tokio::task::coop::poll_proceed(cx) {
                    Poll::Ready(r) => r.made_progress(),
                    Poll::Pending => {
                        world::fault("inner_busy_poll_budget_exhausted");
                        world::with(|w| w.busy_poll = true);
                        return Poll::Pending;
                    }
                }
            }
        }
        let due = self.due;
        let sl = self.sleep.get_or_insert_with(|| Box::pin(tokio::time::sleep_until(due)));
        sl.as_mut().poll(cx)
    }
}

pub struct SimInner {
    pub svc: u8,
    pub inst: u32,
    ready: bool,
    /// clones may need a warm-up before their first Ready (a real timer, so virtual time passes)
    warm_at: Option<tokio::time::Instant>,
    warm_sleep: Option<Pin<Box<tokio::time::Sleep>>>,
    /// capacity mode: this instance holds a reserved slot (answered Ready, not called yet)
    reserved: bool,
}

impl Drop for SimInner {
    fn drop(&mut self) {
        if self.reserved {
            let svc = self.svc as usize;
            let ws = world::try_with_ret(|w| {
                w.reserved[svc] -= 1;
                std::mem::take(&mut w.ready_waiters)
            });
            for w in ws.unwrap_or_default() {
                w.wake();
            }
        }
    }
}

impl SimInner {
    pub fn new(svc: u8) -> Self {
        let inst = world::with(|w| {
            let i = w.next_inst;
            w.next_inst += 1;
            i
        });
        SimInner {
            svc,
            inst,
            ready: false,
            warm_at: None,
            warm_sleep: None,
            reserved: false,
        }
    }
}

impl Clone for SimInner {
    fn clone(&self) -> Self {
        // A clone is a new instance: readiness observed on the original does not carry over.
        let mut c = SimInner::new(self.svc);
        let warm = world::with(|w| w.script.clone_warmup_ms.get(&self.svc).copied().unwrap_or(0));
        if warm > 0 && !world::with(|w| w.ended) {
            c.warm_at = Some(tokio::time::Instant::now() + Duration::from_millis(warm));
        }
        c
    }
}

struct Guard {
    svc: u8,
    key: u32,
    serial: u64,
    done: Option<EndHow>,
}

impl Drop for Guard {
    fn drop(&mut self) {
        let how = match self.done {
            Some(h) => h,
            None => {
                if std::thread::panicking() {
                    EndHow::Panicked
                } else {
                    EndHow::Dropped
                }
            }
        };
        let (svc, key) = (self.svc, self.key);
        world::with(|w| {
            w.in_flight[svc as usize] -= 1;
            *w.in_flight_key.entry((svc, key)).or_insert(0) -= 1;
        });
        world::log(Ev::InnerEnd {
            svc,
            serial: self.serial,
            how,
        });
        // capacity mode: a slot is free again
        let ws = world::with(|w| std::mem::take(&mut w.ready_waiters));
        for w in ws {
            w.wake();
        }
    }
}

pub type InnerFut = Pin<Box<dyn Future<Output = Result<Resp, SimErr>> + Send + 'static>>;

pub type NestedFut = Pin<Box<dyn Future<Output = ()> + Send + 'static>>;
thread_local! {
    /// How the inner service calls back into the stack it sits behind (set by a harness for the
    /// run): gets the nested request, returns the future of that call (created synchronously,
    /// inside the inner service's `call()`), or None if the stack was not ready at once.
    pub static NESTED: std::cell::RefCell<Option<std::rc::Rc<dyn Fn(Req) -> Option<NestedFut>>>> = const { std::cell::RefCell::new(None) };
}

impl tower::Service<Req> for SimInner {
    type Response = Resp;
    type Error = SimErr;
    type Future = InnerFut;

    fn poll_ready(&mut self, cx: &mut Context<'_>) -> Poll<Result<(), SimErr>> {
        let svc = self.svc;
        if let Some(at) = self.warm_at {
            if tokio::time::Instant::now() < at {
                world::fault("ready_warmup_wait");
                let sl = self.warm_sleep.get_or_insert_with(|| Box::pin(tokio::time::sleep_until(at)));
                if sl.as_mut().poll(cx).is_pending() {
                    return Poll::Pending;
                }
            }
            self.warm_at = None;
            self.warm_sleep = None;
        }
        if !self.reserved {
            let cap = world::with(|w| w.script.capacity.get(&svc).copied());
            if let Some(cap) = cap {
                let full = world::with(|w| w.in_flight[svc as usize] + w.reserved[svc as usize] >= cap);
                if full {
                    world::fault("ready_waits_for_capacity");
                    let wk = cx.waker().clone();
                    world::with(|w| w.ready_waiters.push(wk));
                    return Poll::Pending;
                }
                world::with(|w| w.reserved[svc as usize] += 1);
                self.reserved = true;
            }
        }
        let (strict, res) = world::with(|w| {
            let strict = w.script.strict;
            let n = w.ready_polls.entry(svc).or_insert(0);
            let idx = *n as usize;
            let res = w
                .script
                .ready_script
                .get(&svc)
                .and_then(|v| v.get(idx).copied())
                .unwrap_or(0);
            *n += 1;
            (strict, res)
        });
        if strict || res != 0 {
            world::log(Ev::InnerReady {
                svc,
                inst: self.inst,
                res,
            });
        }
        match res {
            0 => {
                self.ready = true;
                Poll::Ready(Ok(()))
            }
            1 => {
                world::fault("ready_pending");
                // wake through a zero-length timer so that this is a normal wake-up, not a spin
                world::with(|w| w.intentional_yield = true);
                cx.waker().wake_by_ref();
                Poll::Pending
            }
            _ => {
                world::fault("ready_error");
                Poll::Ready(Err(SimErr {
                    req: u32::MAX,
                    serial: 0,
                    kind: READY_ERR_KIND,
                    svc,
                }))
            }
        }
    }

    fn call(&mut self, req: Req) -> InnerFut {
        let svc = self.svc;
        let ready_ok = std::mem::replace(&mut self.ready, false);
        if std::mem::replace(&mut self.reserved, false) {
            world::with(|w| w.reserved[svc as usize] -= 1);
        }
        if world::with(|w| w.calls_by_svc.get(&svc).copied().unwrap_or(0) > w.call_limit) {
            // a runaway loop inside one poll would otherwise hang the simulator
            panic!("SIM-LIMIT: more than 5000 inner calls in one run");
        }
        let (serial, attempt, beh) = world::with(|w| {
            let serial = w.next_serial;
            w.next_serial += 1;
            let a = w.calls_by_req.entry((svc, req.id)).or_insert(0);
            let attempt = *a;
            *a += 1;
            let c = w.calls_by_svc.entry(svc).or_insert(0);
            let call_idx = *c;
            *c += 1;

            let beh = if let Some(v) = w.script.by_req.get(&(svc, req.id)) {
                v.get(attempt as usize)
                    .copied()
                    .or_else(|| v.last().copied())
                    .unwrap_or(w.script.default)
            } else if let Some(v) = w.script.by_call.get(&svc) {
                v.get(call_idx as usize).copied().unwrap_or(w.script.default)
            } else {
                w.script.default
            };
            w.in_flight[svc as usize] += 1;
            if w.in_flight[svc as usize] > w.max_in_flight[svc as usize] {
                w.max_in_flight[svc as usize] = w.in_flight[svc as usize];
            }
            let k = w.in_flight_key.entry((svc, req.key)).or_insert(0);
            *k += 1;
            if *k > w.max_in_flight_key {
                w.max_in_flight_key = *k;
            }
            (serial, attempt, beh)
        });
        world::log(Ev::InnerCall {
            svc,
            inst: self.inst,
            req: req.id,
            key: req.key,
            serial,
            attempt,
            ready_ok,
        });
        match beh.out {
            Outcome::Err(_) => world::fault("inner_error"),
            Outcome::Panic => world::fault("inner_panic"),
            Outcome::Never => world::fault("inner_never"),
            Outcome::PanicInCall => world::fault("inner_panic_in_call"),
            Outcome::Ok => {}
        }
        if beh.out == Outcome::PanicInCall {
            // entered and left at once: a panic out of call() itself
            world::with(|w| {
                w.in_flight[svc as usize] -= 1;
                *w.in_flight_key.entry((svc, req.key)).or_insert(0) -= 1;
            });
            world::log(Ev::InnerEnd { svc, serial, how: EndHow::Panicked });
            // capacity mode: the slot is free again
            let ws = world::with(|w| std::mem::take(&mut w.ready_waiters));
            for w in ws {
                w.wake();
            }
            std::panic::panic_any(SimPanic);
        }
        let mut guard = Guard {
            svc,
            key: req.key,
            serial,
            done: None,
        };
        let req_id = req.id;
        let nested_req = world::with(|w| w.script.nested.get(&(svc, req.id)).cloned());
        let nested_fut = nested_req.and_then(|nr| {
            let f = NESTED.with(|n| n.borrow().clone());
            f.and_then(|f| {
                world::fault("inner_calls_back_into_the_stack");
                f(nr)
            })
        });
        let busy = world::with(|w| w.script.busy.contains(&(svc, req.id)));
        Box::pin(async move {
            if let Some(f) = nested_fut {
                f.await;
            }
            if busy {
                // a never-completing busy call stays busy for longer than any generated timeout
                let ms = if beh.out == Outcome::Never { 300 } else { beh.lat_ms };
                BusyWait { due: tokio::time::Instant::now() + Duration::from_millis(ms), sleep: None, announced: false }.await;
            } else if beh.lat_ms > 0 {
                tokio::time::sleep(Duration::from_millis(beh.lat_ms)).await;
            }
            for _ in 0..beh.yields {
                sim_yield().await;
            }
            match beh.out {
                Outcome::Ok => {
                    guard.done = Some(EndHow::Ok);
                    drop(guard);
                    Ok(Resp {
                        req: req_id,
                        serial,
                        svc,
                    })
                }
                Outcome::Err(kind) => {
                    guard.done = Some(EndHow::Err(kind));
                    drop(guard);
                    Err(SimErr {
                        req: req_id,
                        serial,
                        kind,
                        svc,
                    })
                }
                Outcome::Panic | Outcome::PanicInCall => {
                    let _g = guard;
                    std::panic::panic_any(SimPanic);
                }
                Outcome::Never => {
                    let _g = guard;
                    std::future::pending::<()>().await;
                    unreachable!()
                }
            }
        })
    }
}
