#![allow(dead_code)]
mod driver;
mod exec;
mod inner;
mod logq;
mod props;
mod rng;
mod world;

use driver::{CheckOpts, Tier};

fn usage() -> ! {
    eprintln!("usage: trsim check <ID> [--tier quick|thorough] [--runs N] [--seed S] [--threads T] [--no-evidence]\n       trsim replay <file> [--quiet]\n       trsim determinism <ID> [--runs N] [--threads T] [--print]\n       trsim show <ID> <run_index> [--seed S]\n       trsim list");
    std::process::exit(2)
}

fn arg_val(args: &[String], name: &str) -> Option<String> {
    args.iter().position(|a| a == name).and_then(|i| args.get(i + 1).cloned())
}

fn main() {
    let args: Vec<String> = std::env::args().collect();
    exec::install_panic_hook();
    if args.len() < 2 {
        usage();
    }
    let env_seed = std::env::var("VERIF_SEED").ok().and_then(|s| s.parse::<u64>().ok());
    let seed = arg_val(&args, "--seed")
        .and_then(|s| s.parse().ok())
        .or(env_seed)
        .unwrap_or(20261004);
    let threads = arg_val(&args, "--threads")
        .and_then(|s| s.parse().ok())
        .unwrap_or_else(|| std::thread::available_parallelism().map(|n| n.get()).unwrap_or(4).min(16));
    let verif_dir = std::env::var("VERIF_DIR").unwrap_or_else(|_| "/verif".to_string());
    match args[1].as_str() {
        "list" => {
            for p in props::all() {
                println!("{} {}", p.id(), p.engine());
            }
        }
        "check" => {
            let id = args.get(2).cloned().unwrap_or_else(|| usage());
            let p = props::by_id(&id).unwrap_or_else(|| {
                eprintln!("unknown property {}", id);
                std::process::exit(2)
            });
            let tier_s = arg_val(&args, "--tier")
                .or_else(|| std::env::var("VERIF_TIER").ok())
                .unwrap_or_else(|| "quick".into());
            let tier = if tier_s == "thorough" { Tier::Thorough } else { Tier::Quick };
            let opts = CheckOpts {
                tier,
                seed,
                runs: arg_val(&args, "--runs").and_then(|s| s.parse().ok()),
                threads,
                verif_dir,
                write_evidence: !args.iter().any(|a| a == "--no-evidence"),
            };
            if std::env::var_os("TRSIM_CHILD").is_none() {
                // The runs happen in a child process: code under test that aborts the process (a
                // panic inside a destructor during unwinding, a stack overflow) must end up as a
                // reported violation, not as a dead checker.
                let exe = std::env::current_exe().unwrap();
                // watchdog: code under test that blocks its thread for ever (a lock taken twice, a
                // loop without an await) must not hang the checker
                let limit_s: u64 = std::env::var("TRSIM_TIMEOUT_S").ok().and_then(|s| s.parse().ok()).unwrap_or(if tier == Tier::Thorough { 6 * 3600 } else { 300 });
                let mut child = std::process::Command::new(&exe).args(&args[1..]).env("TRSIM_CHILD", "1").spawn().expect("spawn");
                let started = std::time::Instant::now();
                let mut hung = false;
                let st = loop {
                    match child.try_wait() {
                        Ok(Some(s)) => break Ok(s),
                        Ok(None) => {
                            if started.elapsed().as_secs() > limit_s {
                                let _ = child.kill();
                                hung = true;
                                break child.wait();
                            }
                            std::thread::sleep(std::time::Duration::from_millis(50));
                        }
                        Err(e) => break Err(e),
                    }
                };
                match st.as_ref().map(|s| s.code()) {
                    Ok(Some(c)) if !hung && (c == 0 || c == 1 || c == 2) => std::process::exit(c),
                    other => {
                        println!("the checking process {} ({:?}); looking for the run that does it", if hung { "did not finish within its time limit" } else { "died" }, other);
                        let idx_file = format!("{}/out/abort-index-{}-{}", opts.verif_dir, id, std::process::id());
                        let _ = std::fs::create_dir_all(format!("{}/out", opts.verif_dir));
                        let _ = std::fs::remove_file(&idx_file);
                        let mut c2 = std::process::Command::new(&exe)
                            .args(&args[1..])
                            .arg("--no-evidence")
                            .env("TRSIM_CHILD", "1")
                            .env("TRSIM_INDEX_FILE", &idx_file)
                            .stdout(std::process::Stdio::null())
                            .stderr(std::process::Stdio::null())
                            .spawn()
                            .expect("spawn");
                        // one thread, the index of the run about to start is in the file: a run that
                        // takes longer than two minutes is the one that hangs
                        let mut last = (String::new(), std::time::Instant::now());
                        let mut stuck = false;
                        let st2 = loop {
                            match c2.try_wait() {
                                Ok(Some(s)) => break Ok(s),
                                Ok(None) => {
                                    let cur = std::fs::read_to_string(&idx_file).unwrap_or_default();
                                    if cur != last.0 {
                                        last = (cur, std::time::Instant::now());
                                    } else if last.1.elapsed().as_secs() > 120 {
                                        let _ = c2.kill();
                                        stuck = true;
                                        break c2.wait();
                                    }
                                    std::thread::sleep(std::time::Duration::from_millis(100));
                                }
                                Err(e) => break Err(e),
                            }
                        };
                        let died = stuck || !matches!(st2.as_ref().map(|s| s.code()), Ok(Some(0)) | Ok(Some(1)) | Ok(Some(2)));
                        let idx = std::fs::read_to_string(&idx_file).ok().and_then(|s| s.trim().parse::<u64>().ok());
                        let _ = std::fs::remove_file(&idx_file);
                        match (died, idx) {
                            (true, Some(i)) => {
                                let path = driver::write_abort_replay(p.as_ref(), &opts, i, &if stuck { "the run never ends (killed after two minutes)".to_string() } else { format!("{:?}", st2.map(|s| s.to_string())) });
                                println!("violation detail: {}.process_abort [] run {} {} the process that executes it: {}", id, i, if stuck { "never ends and blocks" } else { "kills (abort, not an unwinding panic)" }, path);
                                println!("VIOLATION property={} replay={}", id, path);
                                std::process::exit(1);
                            }
                            _ => {
                                println!("HARNESS-ERROR property={} the checking process died but a single-threaded pass did not reproduce it", id);
                                std::process::exit(2);
                            }
                        }
                    }
                }
            }
            let code = driver::check(p.as_ref(), &opts);
            std::process::exit(code);
        }
        "replay" => {
            let path = args.get(2).cloned().unwrap_or_else(|| usage());
            let quiet = args.iter().any(|a| a == "--quiet");
            let s = std::fs::read_to_string(&path).unwrap_or_else(|e| {
                eprintln!("cannot read {}: {}", path, e);
                std::process::exit(2)
            });
            let j: serde_json::Value = serde_json::from_str(&s).expect("replay file JSON");
            if j["engine"].as_str() == Some("msim") {
                // engine C: the execution is (scenario, workload seed, Miri seed, rate); Miri re-runs it
                let verif = std::env::var("VERIF_DIR").unwrap_or_else(|_| "/verif".to_string());
                let st = std::process::Command::new(format!("{}/bin/msim", verif)).arg("replay").arg(&path).status().expect("bin/msim");
                std::process::exit(st.code().unwrap_or(2));
            }
            let id = j["property"].as_str().unwrap_or("");
            let p = props::by_id(id).unwrap_or_else(|| {
                eprintln!("unknown property {}", id);
                std::process::exit(2)
            });
            if j["supplement"].as_bool() == Some(true) {
                let (vs, _) = p.supplement(Tier::Quick, j["seed"].as_u64().unwrap_or(0));
                let rule = j["rule"].as_str().unwrap_or("");
                let hit = vs.iter().find(|v| v.rule == rule);
                if !quiet {
                    println!("REPLAY property={} supplement reproduced={}", id, hit.is_some());
                }
                std::process::exit(if hit.is_some() { 1 } else { 0 });
            }
            if j["rule"].as_str().map(|r| r.ends_with(".process_abort")).unwrap_or(false) && std::env::var_os("TRSIM_CHILD").is_none() {
                // the recorded run kills its process: execute it in a child and report how it ended
                let exe = std::env::current_exe().unwrap();
                let mut c = std::process::Command::new(exe).args(&args[1..]).env("TRSIM_CHILD", "1").stdout(std::process::Stdio::null()).stderr(std::process::Stdio::null()).spawn().expect("spawn");
                let t0 = std::time::Instant::now();
                let mut stuck = false;
                let st = loop {
                    match c.try_wait() {
                        Ok(Some(s)) => break Ok(s),
                        Ok(None) => {
                            if t0.elapsed().as_secs() > 120 {
                                let _ = c.kill();
                                stuck = true;
                                break c.wait();
                            }
                            std::thread::sleep(std::time::Duration::from_millis(50));
                        }
                        Err(e) => break Err(e),
                    }
                };
                let died = stuck || !matches!(st.as_ref().map(|s| s.code()), Ok(Some(0)) | Ok(Some(1)) | Ok(Some(2)) | Ok(Some(3)));
                if !quiet {
                    println!("REPLAY property={} reproduced={} :: the run {} its process ({:?})", id, died, if died { "killed" } else { "did not kill" }, st.map(|s| s.to_string()));
                }
                std::process::exit(if died { 1 } else { 0 });
            }
            let (rep, dig, msg) = driver::replay_file(p.as_ref(), &j);
            if !quiet {
                println!("REPLAY property={} reproduced={} digest_match={} :: {}", id, rep, dig, msg);
            }
            std::process::exit(if rep && dig { 1 } else if rep { 3 } else { 0 });
        }
        "determinism" => {
            let id = args.get(2).cloned().unwrap_or_else(|| usage());
            let p = props::by_id(&id).unwrap_or_else(|| usage());
            let n = arg_val(&args, "--runs").and_then(|s| s.parse().ok()).unwrap_or(2000);
            let code = driver::determinism(p.as_ref(), seed, n, threads, args.iter().any(|a| a == "--print"));
            std::process::exit(code);
        }
        "show" => {
            let id = args.get(2).cloned().unwrap_or_else(|| usage());
            let idx: u64 = args.get(3).and_then(|s| s.parse().ok()).unwrap_or(0);
            let p = props::by_id(&id).unwrap_or_else(|| usage());
            driver::show(p.as_ref(), seed, idx);
        }
        _ => usage(),
    }
}
