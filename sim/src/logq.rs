//! Queries over the recorded event log.

use crate::inner::EndHow;
use crate::world::{Ev, Rec};

#[derive(Clone, Debug)]
pub struct InnerRec {
    pub svc: u8,
    pub inst: u32,
    pub req: u32,
    pub key: u32,
    pub serial: u64,
    pub attempt: u32,
    pub ready_ok: bool,
    pub start_seq: u64,
    pub start_us: u64,
    pub start_step: u32,
    pub start_task: i32,
    pub end_seq: Option<u64>,
    pub end_us: Option<u64>,
    pub how: Option<EndHow>,
    /// true if the end event was logged after SimEnd (tear-down), i.e. still running at the end
    pub ended_after_sim: bool,
}

pub fn sim_end_seq(log: &[Rec]) -> u64 {
    log.iter()
        .find(|r| matches!(r.ev, Ev::SimEnd))
        .map(|r| r.seq)
        .unwrap_or(u64::MAX)
}

pub fn inner_calls(log: &[Rec]) -> Vec<InnerRec> {
    let end = sim_end_seq(log);
    let mut out: Vec<InnerRec> = Vec::new();
    for r in log {
        match &r.ev {
            Ev::InnerCall {
                svc,
                inst,
                req,
                key,
                serial,
                attempt,
                ready_ok,
            } => out.push(InnerRec {
                svc: *svc,
                inst: *inst,
                req: *req,
                key: *key,
                serial: *serial,
                attempt: *attempt,
                ready_ok: *ready_ok,
                start_seq: r.seq,
                start_us: r.t_us,
                start_step: r.step,
                start_task: r.task,
                end_seq: None,
                end_us: None,
                how: None,
                ended_after_sim: false,
            }),
            Ev::InnerEnd { serial, how, .. } => {
                if let Some(c) = out.iter_mut().rev().find(|c| c.serial == *serial) {
                    if r.seq > end {
                        c.ended_after_sim = true;
                    } else {
                        c.end_seq = Some(r.seq);
                        c.end_us = Some(r.t_us);
                        c.how = Some(*how);
                    }
                }
            }
            _ => {}
        }
    }
    out
}

/// Number of calls of service `svc` in flight just before sequence number `seq`.
pub fn in_flight_before(calls: &[InnerRec], svc: u8, seq: u64) -> usize {
    calls
        .iter()
        .filter(|c| c.svc == svc && c.start_seq < seq && c.end_seq.map(|e| e >= seq).unwrap_or(true))
        .count()
}

pub fn notes<'a>(log: &'a [Rec], tag: &'static str) -> impl Iterator<Item = (&'a Rec, i64, i64)> + 'a {
    log.iter().filter_map(move |r| match &r.ev {
        Ev::Note { tag: t, a, b } if *t == tag => Some((r, *a, *b)),
        _ => None,
    })
}
