//! Per-run world: event log ordered by a global sequence number, virtual clock origin,
//! inner-service scripts and counters. One run executes entirely on one OS thread (tokio
//! current-thread runtime), so the world is a thread-local.

use crate::inner::{Behaviour, EndHow};
use serde::{Deserialize, Serialize};
use std::cell::RefCell;
use std::collections::{BTreeMap, HashMap};
use std::hash::{Hash, Hasher};

#[derive(Clone, Debug, Hash, PartialEq, Eq)]
pub enum Ev {
    /// `call()` entered on the instrumented inner service.
    InnerCall {
        svc: u8,
        inst: u32,
        req: u32,
        key: u32,
        serial: u64,
        attempt: u32,
        ready_ok: bool,
    },
    /// The future returned by `call()` ended (completed, was dropped, panicked).
    InnerEnd { svc: u8, serial: u64, how: EndHow },
    /// `poll_ready` on the inner service (strict mode only). res: 0 ready, 1 pending, 2 error
    InnerReady { svc: u8, inst: u32, res: u8 },
    FirstPoll { task: u32 },
    /// status: 0 resolved, 1 cancelled, 2 panicked, 3 unresolved at end
    TaskEnd { task: u32, status: u8 },
    Note { tag: &'static str, a: i64, b: i64 },
    Jump { ms: u64 },
    SimEnd,
}

#[derive(Clone, Debug)]
pub struct Rec {
    pub seq: u64,
    pub t_us: u64,
    pub task: i32,
    pub step: u32,
    pub ev: Ev,
}

#[derive(Clone, Debug, Serialize, Deserialize, PartialEq, Eq, Hash, PartialOrd, Ord)]
pub struct Violation {
    pub rule: String,
    pub class: String,
    pub msg: String,
}

#[derive(Default)]
pub struct InnerScript {
    /// per service kind: at most this many calls inside + reserved (None = unlimited)
    pub capacity: HashMap<u8, i64>,
    /// behaviour of the n-th call for (svc, req id)
    pub by_req: HashMap<(u8, u32), Vec<Behaviour>>,
    /// behaviour of the n-th call on service `svc` overall (used when by_req has no entry)
    pub by_call: HashMap<u8, Vec<Behaviour>>,
    pub default: Behaviour,
    /// strict readiness checking and scripted readiness results per service kind:
    /// sequence consumed per poll_ready call (0 ready, 1 pending, 2 error); afterwards ready.
    pub ready_script: HashMap<u8, Vec<u8>>,
    pub strict: bool,
    /// a fresh clone of service `svc` only becomes ready this many ms after it was created
    pub clone_warmup_ms: HashMap<u8, u64>,
    /// (svc, req id) whose inner future is *busy*: it uses up tokio's cooperative budget at
    /// every poll until its latency is over (a hot receive loop), instead of sleeping
    pub busy: std::collections::HashSet<(u8, u32)>,
    /// (svc, req id) -> request that the inner service, while handling that request, sends back
    /// through the whole stack (a handler that calls the client it sits behind) and awaits
    /// inside its own future before it goes on
    pub nested: HashMap<(u8, u32), crate::inner::Req>,
    /// simulated tasks keep tokio's cooperative budget (a fresh one per poll, like a spawned
    /// task) instead of running unconstrained
    pub constrained_tasks: bool,
}

pub struct World {
    pub t0: Option<tokio::time::Instant>,
    pub seq: u64,
    pub log: Vec<Rec>,
    pub cur_task: i32,
    pub cur_step: u32,
    pub script: InnerScript,
    pub in_flight: [i64; 4],
    pub max_in_flight: [i64; 4],
    pub in_flight_key: HashMap<(u8, u32), i64>,
    pub max_in_flight_key: i64,
    pub next_serial: u64,
    pub next_inst: u32,
    pub calls_by_req: HashMap<(u8, u32), u32>,
    pub calls_by_svc: HashMap<u8, u32>,
    pub ready_polls: HashMap<u8, u32>,
    /// capacity mode of the inner stub (like tower's ConcurrencyLimit): slots reserved by
    /// instances that answered Ready and have not called yet, and the wakers of waiting callers
    pub reserved: [i64; 4],
    pub ready_waiters: Vec<std::task::Waker>,
    pub faults: BTreeMap<&'static str, u64>,
    pub probes: BTreeMap<&'static str, u64>,
    pub violations: Vec<Violation>,
    pub panics: Vec<String>,
    pub ended: bool,
    pub end_us: u64,
    /// guard against runaway loops inside one poll (raised by properties that need long runs)
    pub call_limit: u32,
    /// cooperative yield points inside the library ("buggify"): PRNG state and rate in percent
    pub buggify_state: u64,
    pub buggify_rate: u64,
    pub intentional_yield: bool,
    /// set by a busy inner future that has just used up the budget: that poll costs 1 virtual ms
    pub busy_poll: bool,
    /// total time that callbacks blocked the thread (`block_for`)
    pub blocked_ms: u64,
    /// circuit-breaker harness: the call-permitted listener blocks the thread for `.1` ms at the
    /// `.0`-th permitted call (and at every later one if `.2`)
    pub cb_block: Option<(u8, u64, bool)>,
    pub cb_block_seen: u8,
    /// set by a busy inner future before its first budget-burning poll
    pub busy_mark: bool,
    /// the task being polled runs with a cooperative budget
    pub constrained_now: bool,
    pub active: bool,
    pub rng_state: u64,
}

impl World {
    fn new() -> Self {
        World {
            t0: None,
            seq: 0,
            log: Vec::new(),
            cur_task: -1,
            cur_step: 0,
            script: InnerScript::default(),
            in_flight: [0; 4],
            max_in_flight: [0; 4],
            in_flight_key: HashMap::new(),
            max_in_flight_key: 0,
            next_serial: 1,
            next_inst: 1,
            calls_by_req: HashMap::new(),
            calls_by_svc: HashMap::new(),
            ready_polls: HashMap::new(),
            reserved: [0; 4],
            ready_waiters: Vec::new(),
            faults: BTreeMap::new(),
            probes: BTreeMap::new(),
            violations: Vec::new(),
            panics: Vec::new(),
            ended: false,
            end_us: 0,
            call_limit: 5000,
            buggify_state: 0,
            buggify_rate: 0,
            intentional_yield: false,
            busy_poll: false,
            blocked_ms: 0,
            cb_block: None,
            cb_block_seen: 0,
            busy_mark: false,
            constrained_now: false,
            active: false,
            rng_state: 0,
        }
    }
}

thread_local! {
    static WORLD: RefCell<World> = RefCell::new(World::new());
}

pub fn with<R>(f: impl FnOnce(&mut World) -> R) -> R {
    WORLD.with(|w| f(&mut w.borrow_mut()))
}

/// Reset the world for a new run.
pub fn reset() {
    crate::inner::NESTED.with(|n| *n.borrow_mut() = None);
    with(|w| *w = World::new());
    with(|w| w.active = true);
}

pub fn take() -> World {
    WORLD.with(|w| std::mem::replace(&mut *w.borrow_mut(), World::new()))
}

/// Non-panicking access for the panic hook.
pub fn try_with(f: impl FnOnce(&mut World)) {
    WORLD.with(|w| {
        if let Ok(mut g) = w.try_borrow_mut() {
            f(&mut g)
        }
    })
}

/// Like `try_with`, with a result (None if the world is borrowed, e.g. during tear-down).
pub fn try_with_ret<T>(f: impl FnOnce(&mut World) -> T) -> Option<T> {
    WORLD.with(|w| w.try_borrow_mut().ok().map(|mut g| f(&mut g)))
}

pub fn is_active() -> bool {
    WORLD.with(|w| w.try_borrow().map(|w| w.active).unwrap_or(true))
}

pub fn start_clock() {
    let now = tokio::time::Instant::now();
    with(|w| w.t0 = Some(now));
}

pub fn now_us() -> u64 {
    // after the simulation has ended (tear-down of the runtime) there is no virtual clock any
    // more: events logged then carry the end instant
    if let Some(t) = with(|w| if w.ended { Some(w.end_us) } else { None }) {
        return t;
    }
    let now = tokio::time::Instant::now();
    with(|w| match w.t0 {
        Some(t0) => now.duration_since(t0).as_micros() as u64,
        None => 0,
    })
}

pub fn now_ms() -> u64 {
    now_us() / 1000
}

pub fn log(ev: Ev) -> u64 {
    let t = now_us();
    with(|w| {
        w.seq += 1;
        let seq = w.seq;
        let task = w.cur_task;
        let step = w.cur_step;
        w.log.push(Rec {
            seq,
            t_us: t,
            task,
            step,
            ev,
        });
        seq
    })
}

pub fn note(tag: &'static str, a: i64, b: i64) -> u64 {
    log(Ev::Note { tag, a, b })
}

pub fn seq() -> u64 {
    with(|w| w.seq)
}

/// A synchronous callback (listener, closure) that *blocks the thread* for `ms`: virtual time
/// passes inside the current poll. tokio's paused clock can only be moved by `time::advance`,
/// an async fn whose first poll moves the clock and whose remainder is a plain yield; polling it
/// once with a no-op waker therefore moves the clock right here, deterministically. Timers that
/// fall due fire at the runtime's next turn, as after a real blocking call.
pub fn block_for(ms: u64) {
    if with(|w| w.ended || !w.active || w.t0.is_none()) {
        return;
    }
    fault("blocking_callback");
    log(Ev::Jump { ms });
    with(|w| w.blocked_ms += ms);
    let mut f = Box::pin(tokio::time::advance(std::time::Duration::from_millis(ms)));
    let wk = std::task::Waker::noop();
    let _ = std::future::Future::poll(f.as_mut(), &mut std::task::Context::from_waker(wk));
}

pub fn fault(kind: &'static str) {
    with(|w| *w.faults.entry(kind).or_insert(0) += 1);
}

pub fn probe(kind: &'static str) {
    with(|w| *w.probes.entry(kind).or_insert(0) += 1);
}

pub fn violation(rule: &str, class: &str, msg: String) {
    with(|w| {
        if w.violations.len() < 16 {
            w.violations.push(Violation {
                rule: rule.to_string(),
                class: class.to_string(),
                msg,
            })
        }
    });
}

pub fn cur_task() -> i32 {
    with(|w| w.cur_task)
}

/// Digest of the event log (deterministic hasher).
pub fn digest(log: &[Rec]) -> u64 {
    #[allow(deprecated)]
    let mut h = std::hash::SipHasher::new_with_keys(0x5eed, 0x7057);
    for r in log {
        // events after SimEnd come from tearing the runtime down; their order depends on tokio's
        // process-global task ids and is not part of the simulated execution
        if matches!(r.ev, Ev::SimEnd) {
            break;
        }
        r.seq.hash(&mut h);
        r.t_us.hash(&mut h);
        r.task.hash(&mut h);
        r.ev.hash(&mut h);
    }
    h.finish()
}

pub fn hash_str(s: &str) -> u64 {
    #[allow(deprecated)]
    let mut h = std::hash::SipHasher::new_with_keys(0x5eed, 0x7057);
    s.hash(&mut h);
    h.finish()
}

/// Installed as the library's async yield hook: a seeded coin per site visit.
pub fn hook_async_yield(_site: &'static str) -> bool {
    with(|w| {
        if w.buggify_rate == 0 {
            return false;
        }
        let r = crate::rng::splitmix(&mut w.buggify_state);
        let y = r % 100 < w.buggify_rate;
        if y {
            w.intentional_yield = true;
            *w.faults.entry("yield_before_lock").or_insert(0) += 1;
        }
        y
    })
}

/// Seeded generator handed to the library's jitter hook.
pub fn hook_rng_u64() -> u64 {
    with(|w| crate::rng::splitmix(&mut w.rng_state))
}
