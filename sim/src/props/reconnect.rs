//! C16: reconnect retries only connection failures, boundedly, with the policy's delays, and
//! returns the first success or an error wrapping the last inner error.
//! C14: backoff delays observed end-to-end over long outages (reconnect and retry loops).

use super::common::*;
use crate::driver::{Prop, RunCtx, RunOutput, Tier};
use crate::exec::{run_sim, Cancel, Hooks, LocalFut, Out, SimCfg, Status, TaskDef};
use crate::inner::{Behaviour, EndHow, Outcome, Req, SimErr, SimInner};
use crate::logq::{inner_calls, notes};
use crate::rng::Rng;
use crate::world::{self, Violation};
use serde::{Deserialize, Serialize};
use serde_json::{json, Value};
use std::sync::Arc;
use std::time::Duration;
use tower::{Layer, Service, ServiceExt};
use tower_resilience_reconnect::{ConnectionState, ReconnectConfig, ReconnectLayer, ReconnectPolicy};
use tower_resilience_retry::{ExponentialBackoff, ExponentialRandomBackoff, FixedInterval, IntervalFunction, RetryLayer};

#[derive(Clone, Debug, Serialize, Deserialize, PartialEq)]
pub enum Policy {
    None,
    Fixed(u64),
    Exponential { initial_ms: u64, max_ms: u64 },
    ExponentialRandom { initial_ms: u64, max_ms: u64, rf_eighths: u32 },
    Custom(Vec<u64>),
}

#[derive(Clone, Debug, Serialize, Deserialize, PartialEq)]
pub struct ReqSpec {
    pub script: Vec<Behaviour>,
    pub gap_ms: u64,
    pub abandon_after_ms: Option<u64>,
}

#[derive(Clone, Debug, Serialize, Deserialize, PartialEq)]
pub struct Scn16 {
    pub policy: Policy,
    pub max_attempts: Option<u32>,
    pub retry_on_reconnect: bool,
    pub predicate: bool,
    pub reqs: Vec<ReqSpec>,
    pub observe_at_ms: Vec<u64>,
    /// Some(k): the k-th poll_ready of the wrapped service (0-based, counting the callers' own
    /// and those before retries) fails. Only the readiness rule is applied to such a run.
    #[serde(default)]
    pub ready_fail_at: Option<u32>,
}

struct Table(Vec<u64>);
impl IntervalFunction for Table {
    fn next_interval(&self, attempt: usize) -> Duration {
        Duration::from_millis(self.0[attempt.min(self.0.len() - 1)])
    }
}

fn build_policy(p: &Policy) -> ReconnectPolicy {
    match p {
        Policy::None => ReconnectPolicy::none(),
        Policy::Fixed(d) => ReconnectPolicy::fixed(Duration::from_millis(*d)),
        Policy::Exponential { initial_ms, max_ms } => ReconnectPolicy::exponential(Duration::from_millis(*initial_ms), Duration::from_millis(*max_ms)),
        Policy::ExponentialRandom { initial_ms, max_ms, rf_eighths } => ReconnectPolicy::exponential_random(Duration::from_millis(*initial_ms), Duration::from_millis(*max_ms), *rf_eighths as f64 / 8.0),
        Policy::Custom(t) => ReconnectPolicy::Custom(Arc::new(Table(t.clone()))),
    }
}

/// (lo, hi) in microseconds for the delay before a retry, index `idx` as passed to the policy.
fn policy_delay(p: &Policy, idx: usize) -> Option<(u64, u64)> {
    match p {
        Policy::None => None,
        Policy::Fixed(d) => Some((*d * 1000, *d * 1000)),
        Policy::Exponential { initial_ms, max_ms } => {
            let v = ((*initial_ms as f64) * 2f64.powi(idx.min(1000) as i32)).min(*max_ms as f64);
            let us = (v * 1000.0).round() as u64;
            Some((us, us))
        }
        Policy::ExponentialRandom { initial_ms, max_ms, rf_eighths } => {
            let v = ((*initial_ms as f64) * 2f64.powi(idx.min(1000) as i32)).min(*max_ms as f64) * 1000.0;
            let rf = *rf_eighths as f64 / 8.0;
            Some(((v * (1.0 - rf)).floor() as u64, (v * (1.0 + rf)).ceil() as u64))
        }
        Policy::Custom(t) => {
            let d = t[idx.min(t.len() - 1)] * 1000;
            Some((d, d))
        }
    }
}

pub fn gen16(rng: &mut Rng) -> Scn16 {
    let policy = match rng.below(6) {
        0 => Policy::None,
        1 => Policy::Fixed(*rng.pick(&[0u64, 5, 10])),
        2 | 3 => Policy::Exponential { initial_ms: *rng.pick(&[1u64, 5, 10]), max_ms: *rng.pick(&[5u64, 20, 40, 1000]) },
        4 => Policy::ExponentialRandom { initial_ms: *rng.pick(&[4u64, 8]), max_ms: *rng.pick(&[16u64, 64]), rf_eighths: *rng.pick(&[0u32, 2, 4]) },
        _ => Policy::Custom((0..rng.range(1, 5)).map(|_| *rng.pick(&[0u64, 1, 5, 10, 25])).collect()),
    };
    let max_attempts = *rng.pick(&[Some(0u32), Some(1), Some(2), Some(2), Some(5), None]);
    let nreq = rng.range(1, 5) as usize;
    let mut reqs = vec![];
    for _ in 0..nreq {
        let len = rng.range(1, 12) as usize;
        let style = rng.below(4);
        let script = (0..len)
            .map(|k| {
                let last = k + 1 == len;
                let out = match style {
                    0 => {
                        if last {
                            Outcome::Ok
                        } else {
                            Outcome::Err(0)
                        }
                    }
                    1 => Outcome::Err(0),
                    _ => match rng.below(10) {
                        0..=5 => Outcome::Err(0),
                        6 => Outcome::Err(1),
                        // an error that has a connection failure as its source()
                        7 => Outcome::Err(7),
                        _ => Outcome::Ok,
                    },
                };
                Behaviour { lat_ms: *rng.pick(&[0u64, 0, 1, 5, 5, 15]), out, yields: 0 }
            })
            .collect();
        reqs.push(ReqSpec { script, gap_ms: *rng.pick(&[0u64, 1, 10, 100]), abandon_after_ms: if rng.chance(1, 8) { Some(*rng.pick(&[0u64, 3, 7, 12, 30])) } else { None } });
    }
    // a long outage: more consecutive failures than any small constant, with a policy whose delay
    // still depends on the attempt number that far out
    let (policy, max_attempts) = if rng.chance(1, 10) {
        let n = rng.range(34, 48) as usize;
        let mut script: Vec<Behaviour> = (0..n).map(|_| Behaviour { lat_ms: 0, out: Outcome::Err(0), yields: 0 }).collect();
        script.push(Behaviour { lat_ms: 0, out: Outcome::Ok, yields: 0 });
        reqs = vec![ReqSpec { script, gap_ms: 0, abandon_after_ms: None }];
        (Policy::Custom((0..56u64).map(|k| 1 + k).collect()), *rng.pick(&[None, Some(60u32)]))
    } else {
        (policy, max_attempts)
    };
    let observe_at_ms = (0..rng.range(0, 8)).map(|_| rng.below(160)).collect();
    let ready_fail_at = if rng.chance(1, 8) { Some(rng.below(6) as u32) } else { None };
    Scn16 { policy, max_attempts, retry_on_reconnect: !rng.chance(1, 5), predicate: rng.chance(1, 2), reqs, observe_at_ms, ready_fail_at }
}

pub fn valid16(s: &Scn16) -> bool {
    !s.reqs.is_empty()
        && s.reqs.len() <= 6
        && s.max_attempts.map(|m| m <= 64).unwrap_or(true)
        && s.reqs.iter().all(|r| !r.script.is_empty() && r.script.len() <= 64 && r.gap_ms <= 1000 && r.abandon_after_ms.map(|a| a <= 200).unwrap_or(true) && r.script.iter().all(|b| b.lat_ms <= 20 && matches!(b.out, Outcome::Ok | Outcome::Err(0) | Outcome::Err(1) | Outcome::Err(7))))
        && s.ready_fail_at.map(|k| k <= 16).unwrap_or(true)
        && s.observe_at_ms.len() <= 10
        && s.observe_at_ms.iter().all(|t| *t <= 2000)
        && match &s.policy {
            Policy::None => true,
            Policy::Fixed(d) => *d <= 100,
            Policy::Exponential { initial_ms, max_ms } => *initial_ms >= 1 && *initial_ms <= 50 && *max_ms >= 1 && *max_ms <= 5000,
            Policy::ExponentialRandom { initial_ms, max_ms, rf_eighths } => *initial_ms >= 1 && *initial_ms <= 50 && *max_ms >= 1 && *max_ms <= 5000 && *rf_eighths <= 8,
            Policy::Custom(t) => !t.is_empty() && t.len() <= 64 && t.iter().all(|d| *d <= 100),
        }
        // an unbounded loop against a script that never succeeds would not end
        && (s.max_attempts.is_some() || !s.retry_on_reconnect || matches!(s.policy, Policy::None) || s.reqs.iter().all(|r| r.script.iter().any(|b| b.out == Outcome::Ok || (s.predicate && matches!(b.out, Outcome::Err(1) | Outcome::Err(7))))))
}

fn classify_display(s: &str) -> &'static str {
    if s.starts_with("max reconnection attempts") {
        "MaxAttemptsExceeded"
    } else if s.starts_with("connection failed (no retry)") {
        "ConnectionFailedNoRetry"
    } else if s.starts_with("connection failed") {
        "ConnectionFailed"
    } else if s.starts_with("service error") {
        "ServiceError"
    } else {
        "Unknown"
    }
}

pub fn run16(s: &Scn16, ctx: &mut RunCtx) -> RunOutput {
    world::reset();
    let mut cfg = SimCfg::default();
    cfg.horizon_ms = 3_600_000;
    cfg.max_steps = 50_000;
    cfg.rt_seed = ctx.rt_seed;
    world::with(|w| w.rng_state = ctx.rt_seed);
    let scn = s.clone();
    let setup = move || {
        tower_resilience_core::verif::set_rng_hook(Some(world::hook_rng_u64));
        world::with(|w| {
            for (i, r) in scn.reqs.iter().enumerate() {
                w.script.by_req.insert((0, i as u32), r.script.clone());
            }
            if let Some(k) = scn.ready_fail_at {
                let mut v = vec![0u8; k as usize];
                v.push(2);
                w.script.ready_script.insert(0, v);
            }
        });
        let mut b = ReconnectConfig::builder().policy(build_policy(&scn.policy)).retry_on_reconnect(scn.retry_on_reconnect);
        b = match scn.max_attempts {
            Some(m) => b.max_attempts(m),
            None => b.unlimited_attempts(),
        };
        if scn.predicate {
            b = b.reconnect_predicate(|e: &dyn std::error::Error| e.to_string().ends_with("kind=0)"));
        }
        let layer = ReconnectLayer::new(b.build());
        let svc = layer.layer(SimInner::new(0));
        let state = layer.state().clone();
        let reqs = scn.reqs.clone();
        let st2 = state.clone();
        let driver: Box<dyn FnOnce() -> LocalFut> = Box::new(move || {
            Box::pin(async move {
                let mut svc = svc;
                for (i, r) in reqs.iter().enumerate() {
                    if r.gap_ms > 0 {
                        tokio::time::sleep(Duration::from_millis(r.gap_ms)).await;
                    }
                    world::note("req_start", i as i64, 0);
                    let fut = async {
                        match svc.ready().await {
                            Ok(sv) => sv.call(Req { id: i as u32, key: 0 }).await,
                            Err(e) => Err(e),
                        }
                    };
                    let res = match r.abandon_after_ms {
                        None => Some(fut.await),
                        Some(a) => {
                            tokio::select! {
                                biased;
                                x = fut => Some(x),
                                _ = tokio::time::sleep(Duration::from_millis(a)) => { world::fault("abandon"); None }
                            }
                        }
                    };
                    let connected = matches!(st2.state(), ConnectionState::Connected) as i64;
                    match res {
                        None => {
                            world::note("req_abandoned", i as i64, connected);
                        }
                        Some(Ok(resp)) => {
                            world::note("req_ok", i as i64, resp.serial as i64);
                            world::note("req_state", i as i64, connected);
                        }
                        Some(Err(e)) => {
                            let class = classify_display(&e.to_string());
                            let code = ["MaxAttemptsExceeded", "ConnectionFailed", "ConnectionFailedNoRetry", "ServiceError", "Unknown"].iter().position(|c| *c == class).unwrap() as i64;
                            let payload = std::error::Error::source(&e).and_then(|s| s.downcast_ref::<SimErr>()).map(|x| x.serial as i64).unwrap_or(-1);
                            let kind = std::error::Error::source(&e).and_then(|s| s.downcast_ref::<SimErr>()).map(|x| x.kind as i64).unwrap_or(-1);
                            world::note("req_err_kind", i as i64, kind);
                            world::note("req_err", i as i64, code * 1_000_000 + payload.max(0));
                            world::note("req_state", i as i64, connected);
                        }
                    }
                }
                Out::unit()
            })
        });
        let mut defs = vec![TaskDef { start_ms: 0, make: driver, cancel: Cancel::Never }];
        for t in scn.observe_at_ms.iter() {
            let st = state.clone();
            let make: Box<dyn FnOnce() -> LocalFut> = Box::new(move || {
                Box::pin(async move {
                    world::note("observe", matches!(st.state(), ConnectionState::Connected) as i64, 0);
                    Out::unit()
                })
            });
            defs.push(TaskDef { start_ms: *t, make, cancel: Cancel::Never });
        }
        defs
    };
    let mut step = |_k| {};
    let mut idle = || {};
    let rep = run_sim(cfg, &mut ctx.chooser, setup, Hooks { step: &mut step, idle: &mut idle });
    tower_resilience_core::verif::set_rng_hook(None);
    let log = world::with(|w| std::mem::take(&mut w.log));
    let calls = inner_calls(&log);
    if rep.tasks[0].status != Status::Resolved {
        world::violation("C16.call_bound", "driver", format!("request sequence did not finish: {:?} {:?}", rep.tasks[0].status, rep.tasks[0].panic_msg));
    }
    // a failing poll_ready of the wrapped service ends the request it happens in, as a readiness
    // error: it is not a failed attempt to sleep on and retry
    let ready_failed: Option<u64> = log.iter().find(|r| matches!(r.ev, world::Ev::InnerReady { res: 2, .. })).map(|r| r.seq);
    if let Some(q) = ready_failed {
        world::probe("readiness_error_during_request");
        let starts: Vec<(u64, i64)> = notes(&log, "req_start").map(|(r, a, _)| (r.seq, a)).collect();
        if let Some((_, i)) = starts.iter().filter(|(sq, _)| *sq < q).last() {
            let later_calls = calls.iter().filter(|c| c.req == *i as u32 && c.start_seq > q).count();
            let kind = notes(&log, "req_err_kind").find(|(_, a, _)| a == i).map(|(_, _, k)| k);
            let abandoned = notes(&log, "req_abandoned").any(|(_, a, _)| a == *i);
            if !abandoned && (later_calls > 0 || kind != Some(crate::inner::READY_ERR_KIND as i64)) {
                world::violation(
                    "C16.readiness_error",
                    if later_calls > 0 { "retried" } else { "swallowed" },
                    format!("request {}: the wrapped service's poll_ready failed while the request was handled; afterwards {} more inner calls were made and the caller got error-source kind {:?} (readiness error kind = {})", i, later_calls, kind, crate::inner::READY_ERR_KIND),
                );
            }
        }
        let mut w = world::take();
        w.log = log;
        return finish(w, ctx, &rep, "C16", true, json!({"readiness_error": true}));
    }
    let mut retried = false;
    for (i, r) in s.reqs.iter().enumerate() {
        let mine: Vec<_> = calls.iter().filter(|c| c.req == i as u32).collect();
        let abandoned = notes(&log, "req_abandoned").any(|(_, a, _)| a == i as i64);
        let refuses = |k: u8| s.predicate && k != 0;
        // reference: what the documented behaviour does with this script
        let mut exp_calls = 0usize;
        let mut failures = 0u32;
        let exp_result: &str;
        loop {
            let b = r.script[exp_calls.min(r.script.len() - 1)];
            exp_calls += 1;
            match b.out {
                Outcome::Ok => {
                    exp_result = "Ok";
                    break;
                }
                Outcome::Err(k) if refuses(k) => {
                    exp_result = "ServiceError";
                    break;
                }
                _ => {
                    failures += 1;
                    if let Some(m) = s.max_attempts {
                        if failures > m {
                            exp_result = "MaxAttemptsExceeded";
                            break;
                        }
                    }
                    if matches!(s.policy, Policy::None) {
                        exp_result = "ConnectionFailed";
                        break;
                    }
                    if !s.retry_on_reconnect {
                        exp_result = "ConnectionFailedNoRetry";
                        break;
                    }
                    if exp_calls > 64 {
                        exp_result = "Unbounded";
                        break;
                    }
                }
            }
        }
        if let Some(m) = s.max_attempts {
            if mine.len() > m as usize + 1 {
                world::violation("C16.call_bound", "", format!("request {}: {} inner calls with max_attempts {}", i, mine.len(), m));
            }
        }
        if mine.len() >= 2 {
            retried = true;
        }
        for (k, c) in mine.iter().enumerate() {
            if k == 0 {
                continue;
            }
            let prev = mine[k - 1];
            match prev.how {
                Some(EndHow::Ok) => world::violation("C16.retry_only_reconnectable", "after_ok", format!("request {}: call {} made after a success", i, k + 1)),
                Some(EndHow::Err(kind)) if refuses(kind) => world::violation("C16.retry_only_reconnectable", "after_other_error", format!("request {}: call {} made after an error that is not a connection failure", i, k + 1)),
                Some(EndHow::Err(_)) => {
                    // delay before retry k (1-based): policy index k or k-1
                    let gap = c.start_us - prev.end_us.unwrap_or(c.start_us);
                    let ok = [k, k - 1].iter().any(|idx| policy_delay(&s.policy, *idx).map(|(lo, hi)| gap + 1000 >= lo && gap <= hi + 1000).unwrap_or(false));
                    if !ok {
                        world::violation(
                            "C16.delay",
                            "",
                            format!("request {}: retry {} started {}us after the failure; policy {:?} gives {:?} / {:?}", i, k, gap, s.policy, policy_delay(&s.policy, k), policy_delay(&s.policy, k - 1)),
                        );
                    }
                    if gap > 0 {
                        world::probe("nonzero_delay_observed");
                    }
                }
                other => world::violation("C16.retry_only_reconnectable", "overlap", format!("request {}: call {} while the previous ended {:?}", i, k + 1, other)),
            }
        }
        if abandoned {
            continue;
        }
        let okn = notes(&log, "req_ok").find(|(_, a, _)| *a == i as i64).map(|(_, _, b)| b);
        let errn = notes(&log, "req_err").find(|(_, a, _)| *a == i as i64).map(|(_, _, b)| b);
        let last = mine.last();
        match (okn, errn) {
            (Some(serial), _) => {
                if exp_result != "Ok" || last.map(|l| l.serial as i64) != Some(serial) || mine.len() != exp_calls {
                    world::violation("C16.result", "ok", format!("request {}: got Ok(serial {}) after {} calls; expected {} after {} calls", i, serial, mine.len(), exp_result, exp_calls));
                }
                let st = notes(&log, "req_state").find(|(_, a, _)| *a == i as i64).map(|(_, _, b)| b);
                if st != Some(1) {
                    world::violation("C16.state", "not_connected_after_success", format!("request {} succeeded but the published state is not Connected", i));
                }
            }
            (None, Some(code)) => {
                let class = ["MaxAttemptsExceeded", "ConnectionFailed", "ConnectionFailedNoRetry", "ServiceError", "Unknown"][(code / 1_000_000) as usize];
                let payload = code % 1_000_000;
                if exp_result == "Unbounded" {
                    continue;
                }
                if class != exp_result {
                    world::violation(
                        "C16.result",
                        if mine.len() < exp_calls { "gave_up_early" } else { "variant" },
                        format!("request {}: got {} after {} calls; the documented behaviour gives {} after {} calls (script {:?})", i, class, mine.len(), exp_result, exp_calls, r.script.iter().map(|b| b.out).collect::<Vec<_>>()),
                    );
                } else if mine.len() != exp_calls {
                    world::violation("C16.result", if mine.len() < exp_calls { "gave_up_early" } else { "extra_calls" }, format!("request {}: {} after {} calls, expected {} calls", i, class, mine.len(), exp_calls));
                }
                if last.map(|l| l.serial as i64) != Some(payload) {
                    world::violation("C16.result", "not_last_error", format!("request {}: error wraps serial {} but the last inner error was {:?}", i, payload, last.map(|l| l.serial)));
                }
            }
            _ => {}
        }
    }
    // observations while a reconnectable failure is being handled (during the backoff and while
    // the retried call is in flight, i.e. until the next attempt of that request has ended):
    // the published state must not read Connected
    for (r, connected, _) in notes(&log, "observe") {
        let in_backoff = calls.iter().any(|c| {
            matches!(c.how, Some(EndHow::Err(k)) if !(s.predicate && k != 0))
                && c.end_seq.map(|e| e < r.seq).unwrap_or(false)
                && {
                    // the same request made a later call which had not ended yet at the observation
                    calls.iter().any(|d| d.req == c.req && d.attempt == c.attempt + 1 && d.end_seq.map(|e| e > r.seq).unwrap_or(true))
                }
        });
        if in_backoff {
            world::probe("observed_during_backoff");
            if connected == 1 {
                world::violation("C16.state", "connected_during_backoff", format!("t={}us: state reads Connected while a reconnectable failure is being handled", r.t_us));
            }
        }
    }
    let mut w = world::take();
    w.log = log;
    finish(w, ctx, &rep, "C16", retried, json!({"inner_calls": calls.len()}))
}

pub struct C16;

impl Prop for C16 {
    fn id(&self) -> &'static str {
        "C16"
    }
    fn supplement(&self, tier: Tier, seed: u64) -> (Vec<Violation>, Value) {
        super::common::msim_supplement("C16", "reconnect", tier, seed)
    }
    fn engine(&self) -> &'static str {
        "asim + tsim (shuttle)"
    }
    fn gen(&self, rng: &mut Rng, _t: Tier) -> Value {
        // one run in ten drives the service from several threads (engine B)
        if rng.chance(1, 10) {
            return serde_json::to_value(super::svcthreads::gen_reconnect(rng)).unwrap();
        }
        loop {
            let s = gen16(rng);
            if valid16(&s) {
                return serde_json::to_value(s).unwrap();
            }
        }
    }
    fn valid(&self, v: &Value) -> bool {
        if super::svcthreads::is_threads(v) {
            return super::svcthreads::valid_json(v) && matches!(parse::<super::svcthreads::ScnT>(v).map(|s| s.kind), Some(super::svcthreads::Kind::Reconnect { .. }));
        }
        parse::<Scn16>(v).map(|s| valid16(&s)).unwrap_or(false)
    }
    fn run(&self, v: &Value, ctx: &mut RunCtx) -> RunOutput {
        if super::svcthreads::is_threads(v) {
            return super::svcthreads::run_json(v, ctx, "C16");
        }
        run16(&parse::<Scn16>(v).unwrap(), ctx)
    }
    fn runs(&self, t: Tier) -> u64 {
        match t {
            Tier::Quick => 20_000,
            Tier::Thorough => 8_000_000,
        }
    }
    fn nontrivial_rule(&self) -> &'static str {
        "scenario = policy none/fixed/exponential/jittered (seeded jitter hook)/custom table, max_attempts 0/1/2/5/unlimited, retry_on_reconnect on/off, predicate on/off, 1-5 sequential requests on one service each with an outcome script over {ok, reconnectable, other, other whose source() is a connection failure} of length <= 12 (mixed sequences included), some requests abandoned mid-backoff, observer tasks reading the published state at seeded instants. Non-trivial: some request was retried. Distinct = distinct event-log digest."
    }
    fn real_components(&self) -> Vec<&'static str> {
        vec!["tower-resilience-reconnect (ReconnectService/Future, ReconnectLayer, ReconnectConfig, ReconnectPolicy, ReconnectState)", "tower-resilience-retry backoff types behind the policies", "tokio::time::sleep on the paused clock"]
    }
    fn stub_components(&self) -> Vec<&'static str> {
        vec!["inner service (SimInner, per-request outcome script)"]
    }
    fn assumptions(&self) -> Vec<&'static str> {
        vec!["the error variant is read from Display and the payload through Error::source (the error type is not exported)", "delay index for retry k may be k or k-1"]
    }
}

// ------------------------------------------------------------------------------------------
// C14
// ------------------------------------------------------------------------------------------

#[derive(Clone, Debug, Serialize, Deserialize, PartialEq)]
pub struct Scn14 {
    /// 0 reconnect (unlimited attempts), 1 retry (max_attempts = attempts + 1)
    pub via: u8,
    pub initial_us: u64,
    /// multiplier in thousandths (1010 = 1.01)
    pub mult_tenths: u32,
    pub max_us: Option<u64>,
    pub rf_eighths: u32,
    /// 0 exponential, 1 exponential random, 2 fixed
    pub kind: u8,
    pub attempts: u32,
    /// Some(c): the backoff is a clone of a template whose other clone, capped at c microseconds,
    /// has been asked for attempts 0..=200 before (clones must not share anything)
    #[serde(default)]
    pub sibling_cap_us: Option<u64>,
    /// with `sibling_cap_us`: the backoff under test is a clone of the *used* sibling itself,
    /// reconfigured afterwards (false: a clone of their common, never used template)
    #[serde(default)]
    pub derived_from_used: bool,
}

/// u64::MAX microseconds stands for Duration::MAX ("no cap" written as a cap)
fn cap_dur(us: u64) -> Duration {
    if us == u64::MAX {
        Duration::MAX
    } else {
        Duration::from_micros(us)
    }
}

const YEAR_MS: u64 = 365 * 24 * 3600 * 1000;

pub fn gen14(rng: &mut Rng, tier: Tier) -> Scn14 {
    let via = rng.below(2) as u8;
    let kind = *rng.pick(&[0u8, 0, 0, 1, 2]);
    let initial_us = *rng.pick(&[0u64, 1_000, 100_000, 100_000, 300_000, 400_000, 1_000_000, 3_600_000_000, 86_400_000_000]);
    // (caps that are not a whole multiple of the initial interval, too)
    let max_us = *rng.pick(&[None, Some(50_000u64), Some(250_000), Some(700_000), Some(1_000_000), Some(5_000_000), Some(5_000_000), Some(3_600_000_000), Some(30 * 86_400_000_000), Some(u64::MAX)]);
    // reconnect's exponential constructors always use multiplier 2 and a cap
    let mult_tenths = if via == 0 { 2000 } else { *rng.pick(&[1000u32, 1001, 1010, 1020, 1500, 2000, 2000, 3000, 10_000]) };
    let max_us = if via == 0 && kind != 2 { Some(max_us.unwrap_or(5_000_000)) } else { max_us };
    let attempts = match tier {
        Tier::Quick => *rng.pick(&[20u32, 80, 80, 200, 1100]),
        Tier::Thorough => *rng.pick(&[80u32, 200, 1100, 1100, 10_000]),
    };
    let rf_eighths = *rng.pick(&[0u32, 2, 4, 8]);
    let sibling_cap_us = if via == 1 && kind != 2 && rng.chance(1, 3) { Some(*rng.pick(&[1_000u64, 50_000, 1_000_000])) } else { None };
    let derived_from_used = sibling_cap_us.is_some() && max_us.is_some() && rng.chance(1, 2);
    Scn14 { via, initial_us, mult_tenths, max_us, rf_eighths, kind, attempts, sibling_cap_us, derived_from_used }
}

pub fn valid14(s: &Scn14) -> bool {
    s.via <= 1 && s.kind <= 2 && s.initial_us <= 86_400_000_000 && s.mult_tenths >= 1000 && s.mult_tenths <= 10_000 && s.rf_eighths <= 8 && s.attempts >= 1 && s.attempts <= 10_000 && (s.via == 1 || s.kind == 2 || s.max_us.is_some()) && (s.via == 1 || s.mult_tenths == 2000) && (s.sibling_cap_us.is_none() || (s.via == 1 && s.kind != 2)) && (!s.derived_from_used || (s.sibling_cap_us.is_some() && s.max_us.is_some()))
}

fn build_backoff(s: &Scn14) -> Arc<dyn IntervalFunction> {
    let init = Duration::from_micros(s.initial_us);
    match s.kind {
        0 => {
            let template = ExponentialBackoff::new(init).multiplier(s.mult_tenths as f64 / 1000.0);
            let mut used = None;
            if let Some(c) = s.sibling_cap_us {
                let sibling = template.clone().max_interval(Duration::from_micros(c));
                for a in 0..=200 {
                    let _ = sibling.next_interval(a);
                }
                used = Some(sibling);
            }
            let mut b = match used {
                Some(u) if s.derived_from_used => u.clone(),
                _ => template.clone(),
            };
            if let Some(m) = s.max_us {
                b = b.max_interval(cap_dur(m));
            }
            Arc::new(b)
        }
        1 => {
            let template = ExponentialRandomBackoff::new(init, s.rf_eighths as f64 / 8.0).multiplier(s.mult_tenths as f64 / 1000.0);
            let mut used = None;
            if let Some(c) = s.sibling_cap_us {
                let sibling = template.clone().max_interval(Duration::from_micros(c));
                for a in 0..=200 {
                    let _ = sibling.next_interval(a);
                }
                used = Some(sibling);
            }
            let mut b = match used {
                Some(u) if s.derived_from_used => u.clone(),
                _ => template.clone(),
            };
            if let Some(m) = s.max_us {
                b = b.max_interval(cap_dur(m));
            }
            Arc::new(b)
        }
        _ => Arc::new(FixedInterval::new(init)),
    }
}

struct Shared(Arc<dyn IntervalFunction>);
impl IntervalFunction for Shared {
    fn next_interval(&self, attempt: usize) -> Duration {
        self.0.next_interval(attempt)
    }
}

/// expected un-jittered delay (seconds, f64) for index idx
fn expected_secs(s: &Scn14, idx: u64) -> f64 {
    let init = s.initial_us as f64 / 1e6;
    if s.kind == 2 {
        return init;
    }
    let m = s.mult_tenths as f64 / 1000.0;
    let raw = if init == 0.0 { 0.0 } else { init * m.powf(idx as f64) };
    match s.max_us {
        Some(c) => raw.min(c as f64 / 1e6),
        None => raw,
    }
}

pub fn run14(s: &Scn14, ctx: &mut RunCtx) -> RunOutput {
    world::reset();
    let mut cfg = SimCfg::default();
    cfg.horizon_ms = 30 * YEAR_MS;
    cfg.max_steps = 200_000;
    cfg.rt_seed = ctx.rt_seed;
    world::with(|w| {
        w.rng_state = ctx.rt_seed;
        w.call_limit = s.attempts + 16;
    });
    let scn = s.clone();
    let setup = move || {
        tower_resilience_core::verif::set_rng_hook(Some(world::hook_rng_u64));
        // dead backend for `attempts` calls, then it answers
        world::with(|w| {
            let mut v = vec![Behaviour { lat_ms: 0, out: Outcome::Err(0), yields: 0 }; scn.attempts as usize];
            v.push(Behaviour { lat_ms: 0, out: Outcome::Ok, yields: 0 });
            w.script.by_req.insert((0, 0), v);
        });
        let make: Box<dyn FnOnce() -> LocalFut> = if scn.via == 0 {
            let policy = match scn.kind {
                0 => ReconnectPolicy::exponential(Duration::from_micros(scn.initial_us), cap_dur(scn.max_us.unwrap_or(5_000_000))),
                1 => ReconnectPolicy::exponential_random(Duration::from_micros(scn.initial_us), cap_dur(scn.max_us.unwrap_or(5_000_000)), scn.rf_eighths as f64 / 8.0),
                _ => ReconnectPolicy::fixed(Duration::from_micros(scn.initial_us)),
            };
            let layer = ReconnectLayer::new(ReconnectConfig::builder().policy(policy).unlimited_attempts().build());
            let svc = layer.layer(SimInner::new(0));
            Box::new(move || {
                Box::pin(async move {
                    let mut svc = svc;
                    match svc.ready().await {
                        Ok(sv) => match sv.call(Req { id: 0, key: 0 }).await {
                            Ok(r) => Out::ok(r),
                            Err(_) => Out::err("Err", None),
                        },
                        Err(_) => Out::err("Ready", None),
                    }
                })
            })
        } else {
            let layer = RetryLayer::<Req, SimErr>::builder().max_attempts(scn.attempts as usize + 1).backoff(Shared(build_backoff(&scn))).build();
            let svc = layer.layer(SimInner::new(0));
            Box::new(move || {
                Box::pin(async move {
                    let mut svc = svc;
                    match svc.ready().await {
                        Ok(sv) => match sv.call(Req { id: 0, key: 0 }).await {
                            Ok(r) => Out::ok(r),
                            Err(e) => Out::err("Err", Some(e)),
                        },
                        Err(e) => Out::err("Ready", Some(e)),
                    }
                })
            })
        };
        vec![TaskDef { start_ms: 0, make, cancel: Cancel::Never }]
    };
    let mut step = |_k| {};
    let mut idle = || {};
    let rep = run_sim(cfg, &mut ctx.chooser, setup, Hooks { step: &mut step, idle: &mut idle });
    tower_resilience_core::verif::set_rng_hook(None);
    let log = world::with(|w| std::mem::take(&mut w.log));
    let calls = inner_calls(&log);
    let desc = format!("{:?}", s);
    let t = &rep.tasks[0];
    if t.status == Status::Panicked {
        world::violation(
            "C14.no_panic",
            if t.panic_msg.as_deref().map(|m| m.contains("overflow")).unwrap_or(false) { "overflow" } else { "other" },
            format!("loop against a dead backend panicked after {} attempts ({}s of virtual time): {:?}; {}", calls.len(), rep.end_us / 1_000_000, t.panic_msg, desc),
        );
    }
    if t.status == Status::Unresolved && !rep.hit_horizon {
        world::violation("C14.no_panic", "stuck", format!("loop stopped making progress after {} attempts; {}", calls.len(), desc));
    }
    // observed delays
    let jitter = if s.kind == 1 { s.rf_eighths as f64 / 8.0 } else { 0.0 };
    let mut offset_ok = [true, true];
    let mut first_bad: [Option<String>; 2] = [None, None];
    let mut prev_d: Option<u64> = None;
    for k in 1..calls.len() {
        let d = calls[k].start_us - calls[k - 1].end_us.unwrap_or(calls[k].start_us);
        for off in 0..2u64 {
            let e = expected_secs(s, k as u64 - 1 + off) * 1e6;
            let lo = e * (1.0 - jitter) - 1000.0 - e * 1e-9;
            let hi = e * (1.0 + jitter) + 1000.0 + e * 1e-9;
            if !((d as f64) >= lo && (d as f64) <= hi) && offset_ok[off as usize] {
                offset_ok[off as usize] = false;
                first_bad[off as usize] = Some(format!("retry {}: waited {}us, formula (index {}) gives {:.0}us", k, d, k as u64 - 1 + off, e));
            }
        }
        if let Some(c) = s.max_us {
            if s.kind != 2 && (d as f64) > c as f64 * (1.0 + jitter) + 1000.0 {
                world::violation("C14.cap", "", format!("retry {}: waited {}us, max_interval {}us; {}", k, d, c, desc));
            }
        }
        if jitter == 0.0 {
            if let Some(p) = prev_d {
                if d + 1000 < p {
                    world::violation("C14.monotone", "", format!("retry {}: waited {}us after {}us before; {}", k, d, p, desc));
                }
            }
        }
        prev_d = Some(d);
    }
    if !offset_ok[0] && !offset_ok[1] {
        world::violation("C14.formula", if jitter > 0.0 { "jitter" } else { "" }, format!("{} | {}; {}", first_bad[0].clone().unwrap_or_default(), first_bad[1].clone().unwrap_or_default(), desc));
    }
    if calls.len() > 68 {
        world::probe("more_than_68_attempts");
    }
    if rep.end_us > 3600 * 1_000_000 {
        world::probe("outage_longer_than_an_hour");
    }
    if let Some(c) = s.max_us {
        if calls.len() >= 2 && prev_d.map(|d| d + 1000 >= c).unwrap_or(false) {
            world::probe("cap_reached");
        }
    }
    let nontrivial = calls.len() >= 10;
    let mut w = world::take();
    w.log = log;
    finish(w, ctx, &rep, "C14", nontrivial, json!({"attempts_made": calls.len(), "virtual_days": rep.end_us / 86_400_000_000}))
}

pub struct C14;

impl Prop for C14 {
    fn id(&self) -> &'static str {
        "C14"
    }
    fn gen(&self, rng: &mut Rng, t: Tier) -> Value {
        loop {
            let s = gen14(rng, t);
            if valid14(&s) {
                return serde_json::to_value(s).unwrap();
            }
        }
    }
    fn valid(&self, v: &Value) -> bool {
        parse::<Scn14>(v).map(|s| valid14(&s)).unwrap_or(false)
    }
    fn run(&self, v: &Value, ctx: &mut RunCtx) -> RunOutput {
        run14(&parse::<Scn14>(v).unwrap(), ctx)
    }
    fn runs(&self, t: Tier) -> u64 {
        match t {
            Tier::Quick => 1_500,
            Tier::Thorough => 300_000,
        }
    }
    fn nontrivial_rule(&self) -> &'static str {
        "one run = a ReconnectService (unlimited attempts) or a Retry (max_attempts = attempts+1) in front of a backend that is dead for 20..10^4 attempts, with initial interval 0..1 day, multiplier 1..10, cap absent / Duration::MAX / below the initial interval / seconds..30 days, randomization 0..1 (seeded jitter hook); the paused clock auto-advances through up to 30 virtual years; every observed inter-attempt delay is compared with the formula, the cap, monotonicity and the jitter band. Non-trivial: at least 10 attempts were made. Distinct = distinct event-log digest. Supplement (not simulation): direct calls of next_interval/delay_for_attempt for attempt numbers no run reaches."
    }
    fn real_components(&self) -> Vec<&'static str> {
        vec!["tower-resilience-retry backoff.rs (ExponentialBackoff, ExponentialRandomBackoff with seeded jitter hook, FixedInterval), Retry loop", "tower-resilience-reconnect ReconnectPolicy constructors and ReconnectFuture loop", "tokio timer wheel on the paused clock (years of virtual time)"]
    }
    fn stub_components(&self) -> Vec<&'static str> {
        vec!["inner service (dead for N calls)"]
    }
    fn assumptions(&self) -> Vec<&'static str> {
        vec!["timer granularity: observed delays may exceed the formula by up to 1ms", "the policy index of the first retry may be 0 or 1 (consistently)"]
    }
    fn supplement(&self, _tier: Tier, _seed: u64) -> (Vec<Violation>, Value) {
        // plain input probing for attempt numbers no simulated loop reaches
        crate::exec::QUIET.with(|q| q.set(true));
        let mut vs = vec![];
        let mut probed = 0u64;
        let attempts: Vec<usize> = vec![0, 1, 10, 67, 68, 100, 1_000, 10_000, 100_000, 1 << 20, (i32::MAX as usize) - 1, i32::MAX as usize, (i32::MAX as usize) + 1, u32::MAX as usize, (u32::MAX as usize) + 1, usize::MAX - 1, usize::MAX];
        for initial_us in [0u64, 1_000, 100_000, 1_000_000, 86_400_000_000] {
            for mult_tenths in [1000u32, 1010, 1500, 2000, 10_000] {
                for max_us in [None, Some(50_000u64), Some(5_000_000), Some(30 * 86_400_000_000), Some(u64::MAX)] {
                    for kind in [0u8, 1, 2, 3] {
                        // kinds 2 and 3: the same two backoffs as clones of a template with a used sibling
                        let sibling_cap_us = if kind >= 2 { Some(1_000u64) } else { None };
                        let kind = kind % 2;
                        let s = Scn14 { via: 1, initial_us, mult_tenths, max_us, rf_eighths: 4, kind, attempts: 1, sibling_cap_us, derived_from_used: kind == 1 && sibling_cap_us.is_some() && max_us.is_some() };
                        let f = build_backoff(&s);
                        let mut prev: Option<Duration> = None;
                        for a in attempts.iter() {
                            probed += 1;
                            let r = std::panic::catch_unwind(std::panic::AssertUnwindSafe(|| f.next_interval(*a)));
                            match r {
                                Err(_) => {
                                    vs.push(Violation { rule: "C14.no_panic".into(), class: "direct_probe".into(), msg: format!("next_interval({}) panicked for {:?}", a, s) });
                                }
                                Ok(d) => {
                                    if let Some(c) = max_us.filter(|c| *c != u64::MAX) {
                                        let lim = Duration::from_micros(c).mul_f64(if kind == 1 { 1.5 } else { 1.0 }) + Duration::from_nanos(1000);
                                        if d > lim {
                                            vs.push(Violation { rule: "C14.cap".into(), class: "direct_probe".into(), msg: format!("next_interval({}) = {:?} above max_interval for {:?}", a, d, s) });
                                        }
                                    }
                                    if kind == 0 {
                                        if let Some(p) = prev {
                                            if d < p {
                                                vs.push(Violation { rule: "C14.monotone".into(), class: "direct_probe".into(), msg: format!("next_interval({}) = {:?} < {:?} (previous probe) for {:?}", a, d, p, s) });
                                            }
                                        }
                                        prev = Some(d);
                                    }
                                }
                            }
                        }
                    }
                }
            }
        }
        // ReconnectPolicy constructors
        for a in attempts.iter() {
            for p in [ReconnectPolicy::default(), ReconnectPolicy::exponential(Duration::from_millis(100), Duration::from_secs(5)), ReconnectPolicy::exponential_random(Duration::from_millis(100), Duration::from_secs(5), 0.5), ReconnectPolicy::fixed(Duration::from_secs(1)), ReconnectPolicy::none()] {
                // (policies capped at Duration::MAX are probed below)
                probed += 1;
                let r = std::panic::catch_unwind(std::panic::AssertUnwindSafe(|| p.delay_for_attempt(*a)));
                match r {
                    Err(_) => vs.push(Violation { rule: "C14.no_panic".into(), class: "direct_probe".into(), msg: format!("{:?}.delay_for_attempt({}) panicked", p, a) }),
                    Ok(Some(d)) if d > Duration::from_millis(7501) => vs.push(Violation { rule: "C14.cap".into(), class: "direct_probe".into(), msg: format!("{:?}.delay_for_attempt({}) = {:?}", p, a, d) }),
                    _ => {}
                }
            }
        }
        for a in attempts.iter() {
            for p in [ReconnectPolicy::exponential(Duration::from_millis(100), Duration::MAX), ReconnectPolicy::exponential_random(Duration::from_millis(100), Duration::MAX, 0.5)] {
                probed += 1;
                if std::panic::catch_unwind(std::panic::AssertUnwindSafe(|| p.delay_for_attempt(*a))).is_err() {
                    vs.push(Violation { rule: "C14.no_panic".into(), class: "direct_probe".into(), msg: format!("{:?}.delay_for_attempt({}) panicked", p, a) });
                }
            }
        }
        crate::exec::QUIET.with(|q| q.set(false));
        vs.sort();
        vs.dedup_by(|a, b| a.rule == b.rule && a.class == b.class);
        (vs, json!({"kind": "direct input probing (not simulated runs)", "calls_probed": probed, "attempt_numbers": attempts.iter().map(|a| a.to_string()).collect::<Vec<_>>() }))
    }
}
