//! C18: health status flips only at its thresholds; selection returns eligible resources.

use super::common::*;
use crate::driver::{Prop, RunCtx, RunOutput, Tier};
use crate::exec::{run_sim, Cancel, Hooks, LocalFut, Out, SimCfg, TaskDef};
use crate::logq::notes;
use crate::rng::Rng;
use crate::world;
use serde::{Deserialize, Serialize};
use serde_json::{json, Value};
use std::sync::Arc;
use std::time::Duration;
use tower_resilience_healthcheck::{HealthCheckWrapper, HealthStatus, SelectionStrategy};

#[derive(Clone, Copy, Debug, Serialize, Deserialize, PartialEq)]
pub struct Check {
    /// 0 healthy, 1 degraded, 2 unhealthy, 3 unknown
    pub res: u8,
    /// 9999 = never completes
    pub lat_ms: u64,
}

#[derive(Clone, Debug, Serialize, Deserialize, PartialEq)]
pub struct Scn {
    pub resources: Vec<Vec<Check>>,
    pub failure_threshold: u32,
    pub success_threshold: u32,
    /// 0 first available, 1 round robin, 2 prefer healthy, 3 custom (last usable), 4 custom (last candidate, whatever its status)
    pub strategy: u8,
    pub initial_delay_ms: u64,
    /// (at_ms, kind): 0 start() again, 1 stop()+start(), 2 stop()
    pub restarts: Vec<(u64, u8)>,
    pub observe_at_ms: Vec<u64>,
    /// check timeout = Duration::MAX ("never time a check out"); every check then finishes
    /// within its interval
    #[serde(default)]
    pub no_timeout: bool,
    /// check timeout in ms (default 20, below the 50ms interval; 120 = rounds may overrun the
    /// interval while every check still answers within its timeout)
    #[serde(default = "default_timeout")]
    pub timeout_ms: u64,
}

fn default_timeout() -> u64 {
    TIMEOUT
}

const INTERVAL: u64 = 50;
const TIMEOUT: u64 = 20;

pub fn gen(rng: &mut Rng) -> Scn {
    let nres = rng.range(1, 4) as usize;
    let intervals = rng.range(20, 200) as usize;
    let resources: Vec<Vec<Check>> = (0..nres)
        .map(|_| {
            let style = rng.below(4);
            let mut prev = 0u8;
            (0..intervals)
                .map(|_| {
                    // runs of equal results make thresholds matter
                    let res = if rng.chance(3, 5) {
                        prev
                    } else {
                        match style {
                            0 => *rng.pick(&[0u8, 0, 0, 2]),
                            1 => *rng.pick(&[2u8, 2, 0, 1]),
                            _ => *rng.pick(&[0u8, 0, 1, 2, 2, 3]),
                        }
                    };
                    prev = res;
                    let lat_ms = *rng.pick(&[0u64, 0, 5, 10, 15, 15, 25, 40, 9999]);
                    let lat_ms = if rng.chance(4, 5) && lat_ms > 15 { 5 } else { lat_ms };
                    Check { res, lat_ms }
                })
                .collect()
        })
        .collect();
    let horizon = intervals as u64 * INTERVAL;
    let nobs = rng.range(4, 24);
    let observe_at_ms = (0..nobs).map(|_| rng.below(horizon / 5) * 5 + 2).collect();
    let restarts = if rng.chance(1, 4) { (0..rng.range(1, 2)).map(|_| (rng.below(horizon / 5) * 5 + *rng.pick(&[0u64, 1, 3]), rng.below(3) as u8)).collect() } else { vec![] };
    let no_timeout = rng.chance(1, 8);
    let resources: Vec<Vec<Check>> = if no_timeout {
        resources.into_iter().map(|r: Vec<Check>| r.into_iter().map(|c| Check { res: c.res, lat_ms: if c.lat_ms == 9999 { 40 } else { c.lat_ms } }).collect()).collect()
    } else {
        resources
    };
    // slow mode: timeout above the interval, checkers that take longer than the interval
    let timeout_ms = if !no_timeout && rng.chance(1, 6) { 120 } else { TIMEOUT };
    let resources: Vec<Vec<Check>> = if timeout_ms > INTERVAL {
        let slow = *rng.pick(&[60u64, 70, 90]);
        let style = rng.below(3);
        resources
            .into_iter()
            .enumerate()
            .map(|(ri, r)| r.into_iter().map(|c| Check { res: c.res, lat_ms: if c.lat_ms == 9999 { 9999 } else if style == 0 || (style == 1 && ri == 0) { slow } else if c.lat_ms > 20 { 150 } else { c.lat_ms } }).collect())
            .collect()
    } else {
        resources
    };
    Scn {
        timeout_ms,
        no_timeout,
        resources,
        failure_threshold: rng.range(1, 4) as u32,
        success_threshold: rng.range(1, 4) as u32,
        strategy: rng.below(5) as u8,
        initial_delay_ms: *rng.pick(&[0u64, 10]),
        restarts,
        observe_at_ms,
    }
}

pub fn valid(s: &Scn) -> bool {
    (!s.no_timeout || s.resources.iter().all(|r| r.iter().all(|c| c.lat_ms <= 45)))
        && !s.resources.is_empty()
        && s.resources.len() <= 5
        && s.resources.iter().all(|r| !r.is_empty() && r.len() <= 220 && r.iter().all(|c| c.res <= 3 && (c.lat_ms == 9999 || (c.lat_ms <= if s.timeout_ms > INTERVAL { 150 } else { 45 } && c.lat_ms % 5 == 0 && c.lat_ms != s.timeout_ms))))
        && (s.timeout_ms == TIMEOUT || s.timeout_ms == 120)
        && s.failure_threshold >= 1
        && s.failure_threshold <= 5
        && s.success_threshold >= 1
        && s.success_threshold <= 5
        && s.strategy <= 4
        && s.initial_delay_ms % 5 == 0
        && s.initial_delay_ms <= 50
        && s.restarts.len() <= 3
        && s.restarts.iter().all(|(t, k)| *t <= 11_000 && *k <= 2)
        && !s.observe_at_ms.is_empty()
        && s.observe_at_ms.len() <= 30
        && s.observe_at_ms.iter().all(|t| *t % 5 == 2 && *t <= 11_000)
}

fn code(s: HealthStatus) -> i64 {
    match s {
        HealthStatus::Healthy => 0,
        HealthStatus::Degraded => 1,
        HealthStatus::Unhealthy => 2,
        HealthStatus::Unknown => 3,
    }
}

pub fn run(s: &Scn, ctx: &mut RunCtx) -> RunOutput {
    world::reset();
    let mut cfg = SimCfg::default();
    let last_obs = s.observe_at_ms.iter().copied().max().unwrap_or(0);
    cfg.horizon_ms = last_obs + 1000;
    cfg.max_steps = 100_000;
    cfg.rt_seed = ctx.rt_seed;
    let scn = s.clone();
    let nres = s.resources.len();
    let setup = move || {
        let scripts = Arc::new(scn.resources.clone());
        let no_timeout = scn.no_timeout;
        let timeout_ms = scn.timeout_ms;
        let counters: Arc<Vec<std::sync::atomic::AtomicUsize>> = Arc::new((0..nres).map(|_| std::sync::atomic::AtomicUsize::new(0)).collect());
        let sc = scripts.clone();
        let cn = counters.clone();
        let checker = move |r: &u32| {
            let r = *r as usize;
            let sc = sc.clone();
            let cn = cn.clone();
            async move {
                let k = cn[r].fetch_add(1, std::sync::atomic::Ordering::SeqCst);
                let c = sc[r][k.min(sc[r].len() - 1)];
                world::note("check_start", r as i64, k as i64);
                if c.lat_ms == 9999 {
                    world::fault("checker_never");
                    std::future::pending::<()>().await;
                } else if c.lat_ms > 0 {
                    if c.lat_ms > timeout_ms && !no_timeout {
                        world::fault("checker_slow");
                    }
                    tokio::time::sleep(Duration::from_millis(c.lat_ms)).await;
                }
                match c.res {
                    0 => HealthStatus::Healthy,
                    1 => HealthStatus::Degraded,
                    2 => HealthStatus::Unhealthy,
                    _ => HealthStatus::Unknown,
                }
            }
        };
        let mut b = HealthCheckWrapper::builder()
            .with_checker(checker)
            .with_interval(Duration::from_millis(INTERVAL))
            .with_timeout(if scn.no_timeout { Duration::MAX } else { Duration::from_millis(scn.timeout_ms) })
            .with_initial_delay(Duration::from_millis(scn.initial_delay_ms))
            .with_failure_threshold(scn.failure_threshold)
            .with_success_threshold(scn.success_threshold)
            .with_selection_strategy(match scn.strategy {
                0 => SelectionStrategy::FirstAvailable,
                1 => SelectionStrategy::RoundRobin,
                2 => SelectionStrategy::PreferHealthy,
                3 => SelectionStrategy::Custom(Arc::new(|st: &[HealthStatus]| st.iter().rposition(|x| x.is_usable()))),
                // a custom strategy that trusts the candidate list it is given: the last candidate
                _ => SelectionStrategy::Custom(Arc::new(|st: &[HealthStatus]| st.len().checked_sub(1))),
            });
        for r in 0..nres {
            b = b.with_context(r as u32, format!("r{}", r));
        }
        let w = Arc::new(b.build());
        let mut defs: Vec<TaskDef> = vec![];
        {
            let w = w.clone();
            let make: Box<dyn FnOnce() -> LocalFut> = Box::new(move || {
                Box::pin(async move {
                    w.start().await;
                    Out::unit()
                })
            });
            defs.push(TaskDef { start_ms: 0, make, cancel: Cancel::Never });
        }
        for (at, kind) in scn.restarts.iter().copied() {
            let w = w.clone();
            let make: Box<dyn FnOnce() -> LocalFut> = Box::new(move || {
                Box::pin(async move {
                    world::fault("restart");
                    match kind {
                        0 => w.start().await,
                        1 => {
                            w.stop().await;
                            w.start().await
                        }
                        _ => w.stop().await,
                    }
                    Out::unit()
                })
            });
            defs.push(TaskDef { start_ms: at, make, cancel: Cancel::Never });
        }
        for (oi, at) in scn.observe_at_ms.iter().copied().enumerate() {
            let w = w.clone();
            let make: Box<dyn FnOnce() -> LocalFut> = Box::new(move || {
                Box::pin(async move {
                    for r in 0..nres {
                        let st = w.get_status(&format!("r{}", r)).await;
                        world::note("obs_status", (oi * 10 + r) as i64, st.map(code).unwrap_or(-1));
                    }
                    for d in w.get_health_details().await {
                        let r: usize = d.name[1..].parse().unwrap_or(0);
                        world::note("obs_detail", (oi * 10 + r) as i64, (code(d.status) * 1_000_000) + (d.consecutive_failures as i64 * 1000) + d.consecutive_successes as i64);
                    }
                    let m = 2 * nres + 1;
                    for _ in 0..m {
                        let x = w.get_healthy().await;
                        world::note("pick_healthy", oi as i64, x.map(|v| v as i64).unwrap_or(-1));
                    }
                    for _ in 0..m {
                        let x = w.get_usable().await;
                        world::note("pick_usable", oi as i64, x.map(|v| v as i64).unwrap_or(-1));
                    }
                    Out::unit()
                })
            });
            defs.push(TaskDef { start_ms: at, make, cancel: Cancel::Never });
        }
        defs
    };
    let mut step = |_k| {};
    let mut idle = || {};
    let rep = run_sim(cfg, &mut ctx.chooser, setup, Hooks { step: &mut step, idle: &mut idle });
    let log = world::with(|w| std::mem::take(&mut w.log));
    // verdicts: (resource, completion time, k, verdict)
    let mut verdicts: Vec<(usize, u64, u64, u8)> = vec![];
    for (r, res, k) in notes(&log, "check_start") {
        let res = res as usize;
        let c = s.resources[res][(k as usize).min(s.resources[res].len() - 1)];
        let timed_out = !s.no_timeout && (c.lat_ms == 9999 || c.lat_ms > s.timeout_ms);
        let done = r.t_us + if timed_out { s.timeout_ms } else { c.lat_ms } * 1000;
        verdicts.push((res, done, k as u64, if timed_out { 2 } else { c.res }));
    }
    verdicts.sort_by_key(|v| (v.1, v.2));
    // the background loop is alive: without stop()/start() in between, every resource is checked
    // once per interval from the initial delay on
    if s.restarts.is_empty() && s.timeout_ms <= INTERVAL {
        let end_ms = rep.end_us / 1000;
        let due = (end_ms.saturating_sub(s.initial_delay_ms) / INTERVAL).saturating_sub(1);
        for res in 0..nres {
            let started = verdicts.iter().filter(|v| v.0 == res).count() as u64;
            if started < due {
                world::violation(
                    "C18.checks_run",
                    if started == 0 { "never" } else { "too_few" },
                    format!("resource {} was checked {} times in {}ms (interval {}ms, initial delay {}ms): at least {} checks were due", res, started, end_ms, INTERVAL, s.initial_delay_ms, due),
                );
            }
        }
    }
    let ft = s.failure_threshold as u64;
    let st = s.success_threshold as u64;
    let mut flips = 0;
    let model_at = |t_us: u64| -> Vec<(i64, u64, u64)> {
        let mut m = vec![(3i64, 0u64, 0u64); nres];
        for (res, done, _, v) in verdicts.iter() {
            if *done >= t_us {
                continue;
            }
            let e = &mut m[*res];
            match v {
                0 => {
                    e.2 += 1;
                    e.1 = 0;
                    if e.2 >= st {
                        e.0 = 0;
                    }
                }
                1 => {
                    e.2 += 1;
                    e.1 = 0;
                    e.0 = 1;
                }
                2 => {
                    e.1 += 1;
                    e.2 = 0;
                    if e.1 >= ft {
                        e.0 = 2;
                    }
                }
                _ => {}
            }
        }
        m
    };
    let mut obs_time: std::collections::HashMap<usize, u64> = Default::default();
    for (r, a, b) in notes(&log, "obs_status") {
        let (oi, res) = ((a / 10) as usize, (a % 10) as usize);
        obs_time.insert(oi, r.t_us);
        let m = model_at(r.t_us);
        if m[res].0 != 3 {
            flips += 1;
        }
        if b != m[res].0 {
            world::violation(
                "C18.status",
                match (m[res].0, b) {
                    (_, 2) => "unhealthy_too_early",
                    (_, 0) => "healthy_too_early",
                    (1, _) => "degraded_not_published",
                    _ => "other",
                },
                format!(
                    "t={}us resource {}: published status {} but the thresholds (failure {}, success {}) applied to the completed checks give {} (consecutive failures {}, successes {}); verdicts so far {:?}",
                    r.t_us,
                    res,
                    b,
                    ft,
                    st,
                    m[res].0,
                    m[res].1,
                    m[res].2,
                    verdicts.iter().filter(|v| v.0 == res && v.1 < r.t_us).map(|v| v.3).collect::<Vec<_>>()
                ),
            );
            break;
        }
    }
    for (r, a, b) in notes(&log, "obs_detail") {
        let res = (a % 10) as usize;
        let m = model_at(r.t_us);
        let want = m[res].0 * 1_000_000 + m[res].1 as i64 * 1000 + m[res].2 as i64;
        if b != want {
            world::violation("C18.counters", "", format!("t={}us resource {}: details (status*1e6 + failures*1e3 + successes) = {} but the model gives {}", r.t_us, res, b, want));
            break;
        }
    }
    // selection
    for (tag, healthy_only) in [("pick_healthy", true), ("pick_usable", false)] {
        let mut by_obs: std::collections::BTreeMap<usize, Vec<i64>> = Default::default();
        for (_, a, b) in notes(&log, tag) {
            by_obs.entry(a as usize).or_default().push(b);
        }
        for (oi, picks) in by_obs {
            let Some(t) = obs_time.get(&oi) else { continue };
            let m = model_at(*t);
            let eligible: Vec<i64> = (0..nres).filter(|r| if healthy_only { m[*r].0 == 0 } else { m[*r].0 == 0 || m[*r].0 == 1 }).map(|r| r as i64).collect();
            for p in picks.iter() {
                let ok = if eligible.is_empty() { *p == -1 } else { eligible.contains(p) };
                if !ok {
                    world::violation(
                        "C18.selection_eligible",
                        if *p == -1 { "none_although_eligible" } else { "ineligible" },
                        format!("t={}us {}: returned {} but the eligible resources are {:?} (statuses {:?})", t, tag, p, eligible, m.iter().map(|x| x.0).collect::<Vec<_>>()),
                    );
                    break;
                }
            }
            if s.strategy == 1 && eligible.len() >= 2 {
                world::probe("round_robin_over_several");
                let counts: Vec<usize> = eligible.iter().map(|e| picks.iter().filter(|p| *p == e).count()).collect();
                let (mn, mx) = (counts.iter().min().unwrap(), counts.iter().max().unwrap());
                if mx - mn > 1 {
                    world::violation("C18.round_robin_even", "", format!("t={}us {}: {} consecutive picks over eligible {:?} were distributed {:?}", t, tag, picks.len(), eligible, counts));
                }
            }
        }
    }
    let mut w = world::take();
    w.log = log;
    finish(w, ctx, &rep, "C18", flips >= 2, json!({"checks": verdicts.len(), "observations": s.observe_at_ms.len()}))
}

pub struct C18;

impl Prop for C18 {
    fn id(&self) -> &'static str {
        "C18"
    }
    fn supplement(&self, tier: Tier, seed: u64) -> (Vec<crate::world::Violation>, Value) {
        super::common::msim_supplement("C18", "roundrobin", tier, seed)
    }
    fn gen(&self, rng: &mut Rng, _t: Tier) -> Value {
        serde_json::to_value(gen(rng)).unwrap()
    }
    fn valid(&self, v: &Value) -> bool {
        parse::<Scn>(v).map(|s| valid(&s)).unwrap_or(false)
    }
    fn run(&self, v: &Value, ctx: &mut RunCtx) -> RunOutput {
        run(&parse::<Scn>(v).unwrap(), ctx)
    }
    fn runs(&self, t: Tier) -> u64 {
        match t {
            Tier::Quick => 3_000,
            Tier::Thorough => 600_000,
        }
    }
    fn nontrivial_rule(&self) -> &'static str {
        "scenario = 1-4 resources with per-resource scripts of check results (healthy, degraded, unhealthy, unknown, slower than the 20ms timeout, never; or no timeout at all = Duration::MAX) over 20-200 intervals of 50ms virtual time, thresholds 1..4, four selection strategies, start() again / stop()+start() / stop() at seeded instants, observers at instants = 2 mod 5 (never sharing an instant with a check start or completion) reading get_status, get_health_details and calling get_healthy/get_usable 2n+1 times; model fed with verdicts in completion order. Non-trivial: at least two observations saw a published (non-unknown) status. Distinct = distinct event-log digest."
    }
    fn real_components(&self) -> Vec<&'static str> {
        vec!["tower-resilience-healthcheck (HealthCheckWrapper background task, per-check tasks, HealthCheckedContext counters, SelectionStrategy)", "tokio interval / timeout / spawn / RwLock on the paused clock"]
    }
    fn stub_components(&self) -> Vec<&'static str> {
        vec!["health checker (scripted result and latency per check)"]
    }
    fn assumptions(&self) -> Vec<&'static str> {
        vec!["check latency never equals the timeout", "random selection strategy not compiled (feature off)", "library-spawned tasks run on tokio's FIFO queue"]
    }
}
