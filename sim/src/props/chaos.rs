//! C19: chaos injection is reproducible (seed + request order) and bounded; injected errors
//! skip the inner call.

use super::common::*;
use crate::driver::{Prop, RunCtx, RunOutput, Tier};
use crate::exec::{run_sim, Cancel, Hooks, LocalFut, Out, Status, TaskDef};
use crate::inner::{Behaviour, Outcome, Req, SimErr, SimInner};
use crate::logq::inner_calls;
use crate::rng::Rng;
use crate::world::{self, Ev};
use serde::{Deserialize, Serialize};
use serde_json::{json, Value};
use std::time::Duration;
use tower::{Layer, Service, ServiceExt};
use tower_resilience_chaos::ChaosLayer;

#[derive(Clone, Debug, Serialize, Deserialize, PartialEq)]
pub struct Scn {
    pub seed: u64,
    pub error_tenths: u32,
    pub latency_tenths: u32,
    pub min_ms: u64,
    pub max_ms: u64,
    pub n: u32,
    /// start offsets of the concurrent callers of service B
    pub b_starts: Vec<u64>,
    pub inner_err: Vec<bool>,
    pub knobs: SchedKnobs,
    /// names of the two equally seeded layers: 0 both "chaos", 1 "alpha" / "beta", 2 unnamed / "beta"
    /// (a name is a label for events, not an input of the decisions)
    #[serde(default)]
    pub names: u8,
    /// the error function of the sequential service panics at its m-th invocation (a user
    /// callback that fails once); the caller contains the panic and goes on with the next request
    #[serde(default)]
    pub a_panic_at: Option<u32>,
}

thread_local! {
    static A_ERRS: std::cell::Cell<u32> = const { std::cell::Cell::new(0) };
}

pub fn gen(rng: &mut Rng) -> Scn {
    let n = rng.range(10, 100) as u32;
    let (min_ms, max_ms) = *rng.pick(&[(0u64, 0u64), (0, 5), (1, 3), (5, 5), (3, 1), (10, 20), (0, 50), (999, 1001), (1500, 1500), (1200, 2500), (1001, 1001), (1003, 1003), (1023, 1023), (1118, 1118), (1235, 1235), (1469, 1469)]);
    let seed = match rng.below(8) {
        0 => 0,
        1 => *rng.pick(&[1u64, u64::MAX, u64::MAX - 1, 1 << 63, (1 << 32) - 1, 1 << 32]),
        _ => rng.next_u64() % 1_000_000,
    };
    Scn {
        seed,
        error_tenths: *rng.pick(&[0u32, 3, 3, 10]),
        latency_tenths: *rng.pick(&[0u32, 5, 5, 10]),
        min_ms,
        max_ms,
        n,
        b_starts: (0..n).map(|_| *rng.pick(&[0u64, 0, 0, 1, 2, 5, 10, 20])).collect(),
        inner_err: (0..n).map(|_| rng.chance(1, 8)).collect(),
        knobs: SchedKnobs::gen(rng, false, 30),
        names: *rng.pick(&[0u8, 0, 1, 2]),
        a_panic_at: if rng.chance(1, 5) { Some(rng.range(1, 4) as u32) } else { None },
    }
}

pub fn valid(s: &Scn) -> bool {
    s.names <= 2
        && s.a_panic_at.map(|m| m >= 1 && m <= 50).unwrap_or(true)
        && s.error_tenths <= 10
        && s.latency_tenths <= 10
        && s.min_ms <= 5000
        && s.max_ms <= 5000
        && s.n >= 1
        && s.n <= 120
        && s.b_starts.len() == s.n as usize
        && s.inner_err.len() == s.n as usize
        && s.b_starts.iter().all(|t| *t <= 100)
        && s.knobs.jumps.is_empty()
}

const INJECTED_KIND: u8 = 77;

pub fn run(s: &Scn, ctx: &mut RunCtx) -> RunOutput {
    world::reset();
    A_ERRS.with(|c| c.set(0));
    let cfg = s.knobs.cfg(ctx, 60_000 + s.n as u64 * s.min_ms.max(s.max_ms), 0);
    let scn = s.clone();
    let n = s.n as usize;
    let setup = move || {
        world::with(|w| {
            for i in 0..n {
                let b = Behaviour { lat_ms: 0, out: if scn.inner_err[i] { Outcome::Err(1) } else { Outcome::Ok }, yields: 0 };
                w.script.by_req.insert((0, i as u32), vec![b]);
                w.script.by_req.insert((1, i as u32), vec![b]);
            }
        });
        macro_rules! mk_layer {
            ($which:expr) => {{
                let which: i64 = $which;
                let panic_at = if which == 0 { scn.a_panic_at } else { None };
                let mut b0 = ChaosLayer::builder();
                match (scn.names, which) {
                    (0, _) => b0 = b0.name("chaos"),
                    (1, 0) => b0 = b0.name("alpha"),
                    (2, 0) => {}
                    _ => b0 = b0.name("beta"),
                }
                b0.error_fn(move |r: &Req| {
                    if let Some(m) = panic_at {
                        let k = A_ERRS.with(|c| {
                            c.set(c.get() + 1);
                            c.get()
                        });
                        if k == m {
                            world::fault("error_fn_panic");
                            world::note("a_panicked", r.id as i64, 0);
                            std::panic::panic_any(crate::inner::SimPanic);
                        }
                    }
                    SimErr { req: r.id, serial: 0, kind: INJECTED_KIND, svc: 9 }
                })
                    .error_rate(scn.error_tenths as f64 / 10.0)
                    .latency_rate(scn.latency_tenths as f64 / 10.0)
                    .min_latency(Duration::from_millis(scn.min_ms))
                    .max_latency(Duration::from_millis(scn.max_ms))
                    .seed(scn.seed)
                    .on_error_injected(move || {
                        world::note("chaos_err", which, 0);
                    })
                    .on_latency_injected(move |d: Duration| {
                        world::note("chaos_lat", which, d.as_micros() as i64);
                    })
                    .on_passed_through(move || {
                        world::note("chaos_pass", which, 0);
                    })
                    .build()
            }};
        }
        let a = mk_layer!(0).layer(SimInner::new(0));
        let b = mk_layer!(1).layer(SimInner::new(1));
        let mut defs = vec![];
        // task 0: service A, sequential
        {
            let make: Box<dyn FnOnce() -> LocalFut> = Box::new(move || {
                Box::pin(async move {
                    let mut a = a;
                    for i in 0..n {
                        world::note("a_req", i as i64, 0);
                        let r = futures::FutureExt::catch_unwind(std::panic::AssertUnwindSafe(async {
                            match a.ready().await {
                                Ok(sv) => sv.call(Req { id: i as u32, key: 0 }).await,
                                Err(e) => Err(e),
                            }
                        }))
                        .await;
                        let Ok(r) = r else {
                            // the user's error function panicked: this request is lost, the
                            // service must go on as if it had answered
                            world::note("a_done", i as i64, i64::MIN);
                            continue;
                        };
                        world::note("a_done", i as i64, match &r { Ok(x) => x.serial as i64, Err(e) => -(e.kind as i64) - 1 });
                    }
                    Out::unit()
                })
            });
            defs.push(TaskDef { start_ms: 0, make, cancel: Cancel::Never });
        }
        for i in 0..n {
            let svc = b.clone();
            let make: Box<dyn FnOnce() -> LocalFut> = Box::new(move || {
                Box::pin(async move {
                    let mut svc = svc;
                    let r = match svc.ready().await {
                        Ok(sv) => sv.call(Req { id: i as u32, key: 0 }).await,
                        Err(e) => Err(e),
                    };
                    match r {
                        Ok(x) => Out::ok(x),
                        Err(e) => Out::err("Err", Some(e)),
                    }
                })
            });
            defs.push(TaskDef { start_ms: scn.b_starts[i], make, cancel: Cancel::Never });
        }
        defs
    };
    let mut step = |_k| {};
    let mut idle = || {};
    let rep = run_sim(cfg, &mut ctx.chooser, setup, Hooks { step: &mut step, idle: &mut idle });
    let log = world::with(|w| std::mem::take(&mut w.log));
    let calls = inner_calls(&log);
    // decisions per service in the order they were drawn: (kind 0 err / 1 latency / 2 pass, delay_us, task, seq, t)
    let mut dec: [Vec<(u8, i64, i32, u64, u64)>; 2] = [vec![], vec![]];
    for r in log.iter() {
        if let Ev::Note { tag, a, b } = &r.ev {
            let k = match *tag {
                "chaos_err" => 0,
                "chaos_lat" => 1,
                "chaos_pass" => 2,
                // the decision was "error"; the event is emitted after the error function
                "a_panicked" => {
                    dec[0].push((0, 0, r.task, r.seq, r.t_us));
                    continue;
                }
                _ => continue,
            };
            dec[*a as usize].push((k, *b, r.task, r.seq, r.t_us));
        }
    }
    let lo = s.min_ms.min(s.max_ms) as i64 * 1000;
    let hi = s.min_ms.max(s.max_ms) as i64 * 1000;
    if dec[0].len() != n || dec[1].len() != n {
        world::violation("C19.same_decisions", "count", format!("{} requests, but {} / {} decisions were announced by the two equally seeded services", n, dec[0].len(), dec[1].len()));
    } else {
        for k in 0..n {
            if (dec[0][k].0, dec[0][k].1) != (dec[1][k].0, dec[1][k].1) {
                world::violation(
                    "C19.same_decisions",
                    "",
                    format!("seed {}: the {}-th request got decision {:?} in the sequential service and {:?} in the concurrently driven one (0 error, 1 latency(us), 2 pass)", s.seed, k, (dec[0][k].0, dec[0][k].1), (dec[1][k].0, dec[1][k].1)),
                );
                break;
            }
        }
    }
    // service B: per caller effects
    let mut injected = 0;
    for (i, t) in rep.tasks.iter().enumerate().skip(1) {
        let id = (i - 1) as u32;
        let d = dec[1].iter().find(|x| x.2 == i as i32);
        let mine: Vec<_> = calls.iter().filter(|c| c.svc == 1 && c.req == id).collect();
        if t.status != Status::Resolved {
            world::violation("C19.rate0_transparent", "unresolved", format!("caller {} did not resolve", id));
            continue;
        }
        let o = t.out.as_ref().unwrap();
        let got_injected = o.inner.as_ref().map(|e| e.kind == INJECTED_KIND).unwrap_or(false);
        match d {
            Some((0, ..)) => {
                injected += 1;
                if !mine.is_empty() {
                    world::violation("C19.error_skips_inner", "", format!("request {}: an error was injected but the inner service was called", id));
                }
                if !got_injected || o.inner.as_ref().map(|e| e.req) != Some(id) {
                    world::violation("C19.error_skips_inner", "wrong_error", format!("request {}: error injection announced but the caller got {:?}", id, o));
                }
            }
            Some((kind, delay, _, _, _)) => {
                if got_injected {
                    world::violation("C19.error_skips_inner", "unannounced", format!("request {}: caller got the injected error without an ErrorInjected event", id));
                }
                if mine.len() != 1 {
                    world::violation("C19.rate0_transparent", "inner_calls", format!("request {}: not an injected error, inner called {} times", id, mine.len()));
                    continue;
                }
                let waited = (mine[0].start_us - t.first_poll_us) as i64;
                if *kind == 1 {
                    injected += 1;
                    if *delay < lo || *delay > hi {
                        world::violation("C19.latency_bounds", "event", format!("injected latency {}us outside [{}, {}]us", delay, lo, hi));
                    }
                    if waited != *delay {
                        world::violation("C19.latency_bounds", "observed", format!("request {}: LatencyInjected says {}us, the inner call started {}us after arrival", id, delay, waited));
                    }
                } else if waited != 0 {
                    world::violation("C19.rate0_transparent", "delay", format!("request {} passed through but the inner call started {}us after arrival", id, waited));
                }
                // result is the inner's
                let good = match (&o.ok, &o.inner) {
                    (Some(r), _) => r.serial == mine[0].serial && r.req == id,
                    (None, Some(e)) => e.serial == mine[0].serial && e.kind == 1,
                    _ => false,
                };
                if !good {
                    world::violation("C19.rate0_transparent", "result", format!("request {}: passed through but got {:?}", id, o));
                }
            }
            None => {
                world::violation("C19.same_decisions", "no_decision", format!("request {} resolved without any announced decision", id));
            }
        }
    }
    if s.error_tenths == 10 {
        world::probe("error_rate_one");
        if dec[1].iter().any(|d| d.0 != 0) || calls.iter().any(|c| c.svc == 1) {
            world::violation("C19.rate1_all_fail", "", "error rate 1 but some request was not failed by injection".into());
        }
    }
    if s.error_tenths == 0 && s.latency_tenths == 0 {
        world::probe("both_rates_zero");
        if dec[1].iter().any(|d| d.0 != 2) {
            world::violation("C19.rate0_transparent", "injection", "both rates are 0 but something was injected".into());
        }
    }
    if s.min_ms > s.max_ms {
        world::probe("min_above_max");
    }
    let mut w = world::take();
    w.log = log;
    finish(w, ctx, &rep, "C19", injected >= 2, json!({"requests": n, "injections_in_concurrent_service": injected}))
}

pub struct C19;

impl Prop for C19 {
    fn id(&self) -> &'static str {
        "C19"
    }
    fn nondeterminism_is_the_violation(&self) -> bool {
        true
    }
    fn gen(&self, rng: &mut Rng, _t: Tier) -> Value {
        serde_json::to_value(gen(rng)).unwrap()
    }
    fn valid(&self, v: &Value) -> bool {
        parse::<Scn>(v).map(|s| valid(&s)).unwrap_or(false)
    }
    fn run(&self, v: &Value, ctx: &mut RunCtx) -> RunOutput {
        run(&parse::<Scn>(v).unwrap(), ctx)
    }
    fn runs(&self, t: Tier) -> u64 {
        match t {
            Tier::Quick => 6_000,
            Tier::Thorough => 2_000_000,
        }
    }
    fn nontrivial_rule(&self) -> &'static str {
        "scenario = chaos seed (incl. 0, 1, 2^32, 2^63, u64::MAX), error rate {0,0.3,1}, latency rate {0,0.5,1}, latency range in whole ms incl. min=max, min>max and ranges above one second, 10-100 requests; two services built from the same configuration: A driven sequentially, B by as many concurrent callers under a seeded schedule; decisions (announced through the listeners) compared position by position in first-poll order, effects of every decision checked per caller. Non-trivial: at least two injections happened in the concurrent service. Distinct = distinct event-log digest."
    }
    fn real_components(&self) -> Vec<&'static str> {
        vec!["tower-resilience-chaos (Chaos service, ChaosLayer builder, seeded StdRng, listeners)", "tokio::time::sleep on the paused clock"]
    }
    fn stub_components(&self) -> Vec<&'static str> {
        vec!["inner services (SimInner svc 0 / svc 1)", "error_fn closure"]
    }
    fn assumptions(&self) -> Vec<&'static str> {
        vec!["decisions are observed through the layer's own events, effects through the inner call log and virtual time", "min_latency > max_latency: 'within the two configured bounds' is read as between the smaller and the larger"]
    }
}
