//! Engine B (`tsim`): seeded interleavings of the individual atomic steps of several threads,
//! on shuttle. The library's lock-free pieces call `verif::yield_point()` before every atomic
//! operation (hook); here that hook is a shuttle scheduling point.
//!
//! C08: retry budgets (conservation after every atomic step, max balance, linearizability).
//! C13 (limit part): AIMD controller / Aimd / Vegas limit stays within [min, max].

use super::common::*;
use crate::driver::{Prop, RunCtx, RunOutput, Tier};
use crate::rng::Rng;
use crate::world::Violation;
use serde::{Deserialize, Serialize};
use serde_json::{json, Value};
use std::cell::{Cell, RefCell};
use std::collections::{BTreeMap, HashSet};
use std::hash::{Hash, Hasher};
use std::rc::Rc;
use std::sync::{Arc, Mutex};
use std::time::Duration;
use tower_resilience_adaptive::{Aimd, ConcurrencyAlgorithm, Vegas};
use tower_resilience_core::{AimdConfig, AimdController};
use tower_resilience_retry::{RetryBudget, RetryBudgetBuilder};

#[derive(Clone, Debug, Serialize, Deserialize, PartialEq)]
pub enum Budget {
    TokenBucket { max: u32, initial: u32 },
    Aimd { min: u32, max: u32, deposit: u32, withdraw: u32, factor_eighths: u32 },
}

#[derive(Clone, Copy, Debug, Serialize, Deserialize, PartialEq, Eq, Hash)]
pub enum BOp {
    Withdraw,
    Deposit,
    Balance,
}

#[derive(Clone, Debug, Serialize, Deserialize, PartialEq)]
pub struct Scn8 {
    pub budget: Budget,
    pub threads: Vec<Vec<BOp>>,
    pub pct_depth: u32,
}

#[derive(Clone, Copy, Debug, Serialize, Deserialize, PartialEq)]
pub enum LOp {
    Success(u64),
    Failure,
}

#[derive(Clone, Debug, Serialize, Deserialize, PartialEq)]
pub struct Scn13t {
    /// 0 AimdController, 1 Aimd, 2 Vegas
    pub alg: u8,
    pub min: u32,
    pub initial: u32,
    pub max: u32,
    pub increase: u32,
    pub factor_eighths: u32,
    pub alpha: u32,
    pub beta: u32,
    pub threads: Vec<Vec<LOp>>,
    pub pct_depth: u32,
}

// ---------------------------------------------------------------- per-execution state

type CheckFn = Rc<dyn Fn() -> Option<(String, String, String)>>;

struct TState {
    step: u64,
    in_hook: bool,
    trace_hash: u64,
    switches: u64,
    last_tid: u8,
    check: Option<CheckFn>,
    violations: Vec<Violation>,
}

thread_local! {
    static TS: RefCell<TState> = RefCell::new(TState { step: 0, in_hook: false, trace_hash: 0, switches: 0, last_tid: 255, check: None, violations: vec![] });
}

shuttle::thread_local! {
    static TID: Cell<u8> = Cell::new(0);
}

fn bump(tid: u8) -> u64 {
    TS.with(|t| {
        let mut t = t.borrow_mut();
        t.step += 1;
        t.trace_hash = crate::rng::mix(&[t.trace_hash, tid as u64 + 1]);
        if t.last_tid != tid && t.last_tid != 255 {
            t.switches += 1;
        }
        t.last_tid = tid;
        t.step
    })
}

fn run_check() {
    let chk = TS.with(|t| t.borrow().check.clone());
    if let Some(c) = chk {
        if let Some((rule, class, msg)) = c() {
            TS.with(|t| {
                let mut t = t.borrow_mut();
                if t.violations.len() < 8 {
                    t.violations.push(Violation { rule, class, msg });
                }
            });
        }
    }
}

pub(crate) fn set_tid(t: u8) {
    TID.with(|c| c.set(t));
}

/// Installed as `verif::yield_point`: runs before every atomic operation of the library.
pub(crate) fn hook() {
    let nested = TS.with(|t| {
        let mut t = t.borrow_mut();
        if t.in_hook {
            true
        } else {
            t.in_hook = true;
            false
        }
    });
    if nested {
        return; // the observer's own reads are not scheduling points
    }
    // invariant after the previous atomic step
    run_check();
    TS.with(|t| t.borrow_mut().in_hook = false);
    shuttle::thread::sleep(Duration::ZERO);
    let tid = TID.with(|c| c.get());
    bump(tid);
}

#[derive(Clone, Debug)]
struct OpRec {
    thread: u8,
    op: BOp,
    inv: u64,
    ret: u64,
    res: i64,
}

pub(crate) struct ExecOut {
    pub(crate) violations: Vec<Violation>,
    pub(crate) steps: u64,
    pub(crate) trace_hash: u64,
    pub(crate) switches: u64,
    history: Vec<OpRec>,
    pub(crate) panic: Option<String>,
}

/// `run_shuttle` for bodies that keep no operation history.
pub(crate) fn run_shuttle_unit(seed: u64, pct_depth: u32, body: impl Fn() + Send + Sync + 'static) -> ExecOut {
    run_shuttle(seed, pct_depth, move |_h| body())
}

fn run_shuttle(seed: u64, pct_depth: u32, body: impl Fn(Arc<Mutex<Vec<OpRec>>>) + Send + Sync + 'static) -> ExecOut {
    let hist: Arc<Mutex<Vec<OpRec>>> = Arc::new(Mutex::new(vec![]));
    let out: Arc<Mutex<Option<(Vec<Violation>, u64, u64, u64)>>> = Arc::new(Mutex::new(None));
    let (h2, o2) = (hist.clone(), out.clone());
    let f = move || {
        TS.with(|t| *t.borrow_mut() = TState { step: 0, in_hook: false, trace_hash: 0, switches: 0, last_tid: 255, check: None, violations: vec![] });
        tower_resilience_core::verif::set_yield_hook(Some(hook));
        body(h2.clone());
        tower_resilience_core::verif::set_yield_hook(None);
        let r = TS.with(|t| {
            let mut t = t.borrow_mut();
            t.check = None;
            (std::mem::take(&mut t.violations), t.step, t.trace_hash, t.switches)
        });
        *o2.lock().unwrap() = Some(r);
    };
    let mut cfg = shuttle::Config::new();
    cfg.failure_persistence = shuttle::FailurePersistence::None;
    cfg.silence_warnings = true;
    crate::exec::QUIET.with(|q| q.set(true));
    let res = std::panic::catch_unwind(std::panic::AssertUnwindSafe(|| {
        if pct_depth > 0 {
            shuttle::Runner::new(shuttle::scheduler::PctScheduler::new_from_seed(seed, pct_depth as usize, 1), cfg).run(f);
        } else {
            shuttle::Runner::new(shuttle::scheduler::RandomScheduler::new_from_seed(seed, 1), cfg).run(f);
        }
    }));
    crate::exec::QUIET.with(|q| q.set(false));
    tower_resilience_core::verif::set_yield_hook(None);
    let panic = res.err().map(|p| {
        if let Some(s) = p.downcast_ref::<String>() {
            s.chars().take(300).collect()
        } else if let Some(s) = p.downcast_ref::<&str>() {
            s.to_string()
        } else {
            "panic".to_string()
        }
    });
    let (violations, steps, trace_hash, switches) = out.lock().unwrap().take().unwrap_or((vec![], 0, 0, 0));
    let history = hist.lock().unwrap().clone();
    ExecOut { violations, steps, trace_hash, switches, history, panic }
}

// ---------------------------------------------------------------- C08

pub fn gen8(rng: &mut Rng) -> Scn8 {
    let budget = if rng.chance(1, 2) {
        // (a maximum of zero switches retries off)
        let max = rng.range(0, 4) as u32;
        Budget::TokenBucket { max, initial: rng.range(0, max as u64) as u32 }
    } else {
        let max = rng.range(1, 6) as u32;
        // (one budget in three has its floor anywhere up to the maximum)
        let min = if rng.chance(1, 3) { rng.range(0, max as u64) as u32 } else { rng.range(0, 1).min(max as u64) as u32 };
        Budget::Aimd { min, max, deposit: rng.range(1, 2) as u32, withdraw: rng.range(1, 3) as u32, factor_eighths: *rng.pick(&[0u32, 4, 6, 8]) }
    };
    let nt = rng.range(2, 4) as usize;
    let threads = (0..nt)
        .map(|_| {
            let n = rng.range(1, 5) as usize;
            (0..n)
                .map(|_| match rng.below(100) {
                    0..=44 => BOp::Withdraw,
                    45..=84 => BOp::Deposit,
                    _ => BOp::Balance,
                })
                .collect()
        })
        .collect();
    Scn8 { budget, threads, pct_depth: *rng.pick(&[0u32, 0, 0, 2, 3]) }
}

pub fn valid8(s: &Scn8) -> bool {
    s.threads.len() >= 1
        && s.threads.len() <= 4
        && s.threads.iter().all(|t| t.len() <= 6)
        && s.threads.iter().map(|t| t.len()).sum::<usize>() >= 1
        && s.pct_depth <= 5
        && match &s.budget {
            Budget::TokenBucket { max, initial } => *max <= 8 && initial <= max,
            Budget::Aimd { min, max, deposit, withdraw, factor_eighths } => min <= max && *max >= 1 && *max <= 16 && *deposit >= 1 && *deposit <= 4 && *withdraw >= 1 && *withdraw <= 4 && *factor_eighths <= 8,
        }
}

fn build_budget(b: &Budget) -> Arc<dyn RetryBudget> {
    match b {
        Budget::TokenBucket { max, initial } => RetryBudgetBuilder::new().token_bucket().max_tokens(*max as usize).initial_tokens(*initial as usize).build(),
        Budget::Aimd { min, max, deposit, withdraw, factor_eighths } => RetryBudgetBuilder::new()
            .aimd()
            .min_budget(*min as usize)
            .max_budget(*max as usize)
            .deposit_amount(*deposit as usize)
            .withdraw_amount(*withdraw as usize)
            .decrease_factor(*factor_eighths as f64 / 8.0)
            .build(),
    }
}

/// Sequential specification of a budget: state (balance, ceiling).
fn spec_apply(b: &Budget, st: (i64, i64), op: BOp) -> ((i64, i64), i64) {
    match b {
        Budget::TokenBucket { max, .. } => match op {
            BOp::Withdraw => {
                if st.0 >= 1 {
                    ((st.0 - 1, st.1), 1)
                } else {
                    (st, 0)
                }
            }
            BOp::Deposit => (((st.0 + 1).min(*max as i64), st.1), 0),
            BOp::Balance => (st, st.0),
        },
        Budget::Aimd { min, max, deposit, withdraw, factor_eighths } => match op {
            BOp::Withdraw => {
                if st.0 >= *withdraw as i64 {
                    ((st.0 - *withdraw as i64, st.1), 1)
                } else {
                    let dec = (st.1 as f64 * (*factor_eighths as f64 / 8.0)) as i64;
                    ((st.0, dec.max(*min as i64)), 0)
                }
            }
            BOp::Deposit => {
                let nb = (st.0 + *deposit as i64).min(st.1);
                ((nb, (st.1 + 1).min(*max as i64)), 0)
            }
            BOp::Balance => (st, st.0),
        },
    }
}

/// `abstract_ceiling`: the AIMD budget's dynamic ceiling is not tracked; a deposit may be capped
/// at any value in [min_budget, max_budget] (isolates atomicity of the token balance).
fn linearizable(b: &Budget, init: (i64, i64), h: &[OpRec], abstract_ceiling: bool) -> bool {
    fn go(b: &Budget, h: &[OpRec], done: u32, st: (i64, i64), memo: &mut HashSet<(u32, (i64, i64))>, abs: bool) -> bool {
        if done.count_ones() as usize == h.len() {
            return true;
        }
        if !memo.insert((done, st)) {
            return false;
        }
        // an operation may go next if no other pending operation returned before it was invoked
        let min_ret = h.iter().enumerate().filter(|(i, _)| done & (1 << i) == 0).map(|(_, o)| o.ret).min().unwrap();
        for (i, o) in h.iter().enumerate() {
            if done & (1 << i) != 0 || o.inv > min_ret {
                continue;
            }
            let ceilings: Vec<i64> = match (abs, b) {
                (true, Budget::Aimd { min, max, .. }) => (*min as i64..=*max as i64).collect(),
                _ => vec![st.1],
            };
            for c in ceilings {
                let (mut ns, res) = spec_apply(b, (st.0, c), o.op);
                if abs {
                    ns.1 = 0;
                }
                let ok = match o.op {
                    BOp::Deposit => true,
                    _ => res == o.res,
                };
                if ok && go(b, h, done | (1 << i), ns, memo, abs) {
                    return true;
                }
            }
        }
        false
    }
    let mut memo = HashSet::new();
    go(b, h, 0, if abstract_ceiling { (init.0, 0) } else { init }, &mut memo, abstract_ceiling)
}

pub fn run8(s: &Scn8, ctx: &mut RunCtx) -> RunOutput {
    let scn = s.clone();
    let (init_bal, cost, amount, cap) = match &s.budget {
        Budget::TokenBucket { max, initial } => (*initial as i64, 1i64, 1i64, *max as i64),
        Budget::Aimd { max, deposit, withdraw, .. } => (*max as i64, *withdraw as i64, *deposit as i64, *max as i64),
    };
    let out = run_shuttle(ctx.rt_seed, s.pct_depth, move |hist| {
        let budget = build_budget(&scn.budget);
        // counters for the conservation invariant
        let granted = Rc::new(Cell::new(0i64));
        let deposits_invoked = Rc::new(Cell::new(0i64));
        {
            let (b, g, d) = (budget.clone(), granted.clone(), deposits_invoked.clone());
            let chk: CheckFn = Rc::new(move || {
                let bal = b.balance() as i64;
                if g.get() * cost + bal > init_bal + d.get() * amount {
                    return Some((
                        "C08.conservation".to_string(),
                        String::new(),
                        format!("granted {} x cost {} + balance {} > initial {} + deposits {} x amount {}", g.get(), cost, bal, init_bal, d.get(), amount),
                    ));
                }
                if bal > cap {
                    return Some(("C08.max_balance".to_string(), String::new(), format!("balance {} above the configured maximum {}", bal, cap)));
                }
                None
            });
            TS.with(|t| t.borrow_mut().check = Some(chk));
        }
        // Rc counters are only touched from the single OS thread shuttle runs on
        struct SendPtr<T>(T);
        unsafe impl<T> Send for SendPtr<T> {}
        let mut handles = vec![];
        for (ti, ops) in scn.threads.iter().enumerate() {
            let ops = ops.clone();
            let budget = budget.clone();
            let hist = hist.clone();
            let cells = SendPtr((granted.clone(), deposits_invoked.clone()));
            handles.push(shuttle::thread::spawn(move || {
                let cells = cells;
                let (granted, deposits_invoked) = (&cells.0 .0, &cells.0 .1);
                TID.with(|c| c.set(ti as u8));
                for op in ops {
                    let inv = bump(ti as u8);
                    let res = match op {
                        BOp::Withdraw => {
                            let g = budget.try_withdraw();
                            if g {
                                granted.set(granted.get() + 1);
                            }
                            g as i64
                        }
                        BOp::Deposit => {
                            deposits_invoked.set(deposits_invoked.get() + 1);
                            budget.deposit();
                            0
                        }
                        BOp::Balance => budget.balance() as i64,
                    };
                    TID.with(|c| c.set(ti as u8));
                    let ret = bump(ti as u8);
                    hist.lock().unwrap().push(OpRec { thread: ti as u8, op, inv, ret, res });
                }
            }));
        }
        for h in handles {
            let _ = h.join();
        }
        TS.with(|t| t.borrow_mut().in_hook = true);
        run_check();
        TS.with(|t| t.borrow_mut().in_hook = false);
    });
    let mut violations = out.violations.clone();
    if let Some(p) = &out.panic {
        violations.push(Violation { rule: "C08.linearizable".into(), class: "panic".into(), msg: format!("execution panicked: {}", p) });
    } else {
        let init = match &s.budget {
            Budget::TokenBucket { initial, .. } => (*initial as i64, 0),
            Budget::Aimd { max, .. } => (*max as i64, *max as i64),
        };
        if out.history.len() <= 24 && !linearizable(&s.budget, init, &out.history, false) {
            let mut h = out.history.clone();
            h.sort_by_key(|o| o.inv);
            let balance_atomic = linearizable(&s.budget, init, &out.history, true);
            violations.push(Violation {
                rule: "C08.linearizable".into(),
                class: match s.budget {
                    Budget::TokenBucket { .. } => "token_bucket".into(),
                    // the token balance itself is consistent with some order; only the dynamic
                    // ceiling (read and updated in separate steps) is not
                    Budget::Aimd { .. } if balance_atomic => "aimd_ceiling".into(),
                    Budget::Aimd { .. } => "aimd".into(),
                },
                msg: format!("no sequential order of the operations explains the results: {:?}", h.iter().map(|o| format!("T{}:{:?}[{}..{}]={}", o.thread, o.op, o.inv, o.ret, o.res)).collect::<Vec<_>>()),
            });
        }
    }
    violations.sort();
    violations.dedup_by(|a, b| a.rule == b.rule && a.class == b.class);
    let overlapped = out.switches > s.threads.len() as u64;
    let mut hasher = std::collections::hash_map::DefaultHasher::new();
    serde_json::to_string(s).unwrap().hash(&mut hasher);
    out.trace_hash.hash(&mut hasher);
    let mut probes = BTreeMap::new();
    if overlapped {
        probes.insert("operations_overlapped", 1);
    }
    if s.pct_depth > 0 {
        probes.insert("pct_schedule", 1);
    }
    RunOutput {
        violations,
        faults: BTreeMap::new(),
        probes,
        steps: out.steps,
        vtime_us: 0,
        nontrivial: overlapped,
        digest: hasher.finish(),
        trace: vec![],
        diverged: false,
        summary: json!({"history": out.history.iter().map(|o| format!("T{}:{:?}[{}..{}]={}", o.thread, o.op, o.inv, o.ret, o.res)).collect::<Vec<_>>(), "context_switches": out.switches}),
    }
}

pub struct C08;

impl Prop for C08 {
    fn id(&self) -> &'static str {
        "C08"
    }
    fn supplement(&self, tier: Tier, seed: u64) -> (Vec<crate::world::Violation>, Value) {
        super::common::msim_supplement("C08", "budget", tier, seed)
    }
    fn engine(&self) -> &'static str {
        "tsim (shuttle)"
    }
    fn gen(&self, rng: &mut Rng, _t: Tier) -> Value {
        serde_json::to_value(gen8(rng)).unwrap()
    }
    fn valid(&self, v: &Value) -> bool {
        parse::<Scn8>(v).map(|s| valid8(&s)).unwrap_or(false)
    }
    fn run(&self, v: &Value, ctx: &mut RunCtx) -> RunOutput {
        run8(&parse::<Scn8>(v).unwrap(), ctx)
    }
    fn runs(&self, t: Tier) -> u64 {
        match t {
            Tier::Quick => 20_000,
            Tier::Thorough => 600_000,
        }
    }
    fn nontrivial_rule(&self) -> &'static str {
        "one run = one workload (token bucket or AIMD budget with seeded sizes, 2-4 threads x 1-5 ops from {try_withdraw, deposit, balance}) under one seeded shuttle schedule (random, or PCT depth 2-3) of the atomic steps; conservation and the maximum are checked after every atomic step, the complete invoke/return history is checked for linearizability against the sequential budget by exhaustive search. Non-trivial: the schedule switched threads more often than there are threads (operations overlapped). Distinct = hash(workload, thread-id sequence of the atomic steps)."
    }
    fn real_components(&self) -> Vec<&'static str> {
        vec!["tower-resilience-retry TokenBucketBudget / AimdBudget, tower-resilience-core AimdController (atomics behind the yield hook)"]
    }
    fn stub_components(&self) -> Vec<&'static str> {
        vec!["threads are shuttle coroutines on one OS thread; sequentially consistent interleavings only (no weak-memory effects)"]
    }
    fn assumptions(&self) -> Vec<&'static str> {
        vec!["interleaving granularity = one atomic operation (load, store, CAS)", "Relaxed orderings are explored as sequentially consistent"]
    }
}

// ---------------------------------------------------------------- C13 (limit bounds under interleavings)

pub fn gen13t(rng: &mut Rng) -> Scn13t {
    let min = rng.range(1, 3) as u32;
    let max = min + rng.range(0, 6) as u32;
    let alg = rng.below(3) as u8;
    let nt = rng.range(2, 4) as usize;
    let per = if alg == 2 { 8 } else { 5 };
    let threads = (0..nt)
        .map(|_| {
            let n = rng.range(1, per) as usize;
            (0..n).map(|_| if rng.chance(2, 3) { LOp::Success(*rng.pick(&[1u64, 5, 10, 50, 200])) } else { LOp::Failure }).collect()
        })
        .collect();
    let initial = rng.range(min as u64, max as u64) as u32;
    // u32::MAX stands for usize::MAX: no upper bound, possibly starting wide open
    let (initial, max) = if rng.chance(1, 10) { (if rng.chance(2, 3) { u32::MAX } else { initial }, u32::MAX) } else { (initial, max) };
    // limits in the hundreds (a step that depends on the magnitude must still respect the bounds)
    let (min, initial, max) = if max != u32::MAX && rng.chance(1, 8) {
        let base = *rng.pick(&[95u32, 100, 118, 150, 990]);
        (base + min, base + initial, base + max)
    } else {
        (min, initial, max)
    };
    // a steady stream of equally fast successes is what makes a limiter creep upwards
    let threads: Vec<Vec<LOp>> = if (max == u32::MAX || max >= 90) && rng.chance(1, 2) {
        let lat = *rng.pick(&[1u64, 5, 10]);
        (0..nt).map(|_| (0..rng.range(4, 8)).map(|_| LOp::Success(lat)).collect()).collect()
    } else {
        threads
    };
    Scn13t {
        alg,
        min,
        initial,
        max,
        increase: rng.range(1, 3) as u32,
        factor_eighths: *rng.pick(&[0u32, 2, 4, 6, 8]),
        alpha: rng.range(1, 3) as u32,
        beta: rng.range(3, 6) as u32,
        threads,
        pct_depth: *rng.pick(&[0u32, 0, 2, 3]),
    }
}

pub fn valid13t(s: &Scn13t) -> bool {
    s.alg <= 2
        && s.min >= 1
        && s.min <= s.max
        && (s.max <= 1100 || s.max == u32::MAX)
        && s.initial >= s.min
        && s.initial <= s.max
        && (s.initial <= 1100 || s.initial == u32::MAX)
        && s.increase >= 1
        && s.increase <= 4
        && s.factor_eighths <= 8
        && s.alpha >= 1
        && s.alpha <= s.beta
        && s.beta <= 10
        && !s.threads.is_empty()
        && s.threads.len() <= 4
        && s.threads.iter().all(|t| t.len() <= 10)
        && s.pct_depth <= 5
}

enum Alg {
    Ctrl(AimdController),
    Aimd(Aimd),
    Vegas(Vegas),
}

impl Alg {
    fn limit(&self) -> usize {
        match self {
            Alg::Ctrl(c) => c.limit(),
            Alg::Aimd(a) => a.limit(),
            Alg::Vegas(v) => v.limit(),
        }
    }
    fn apply(&self, op: LOp) {
        match (self, op) {
            (Alg::Ctrl(c), LOp::Success(_)) => c.record_success(),
            (Alg::Ctrl(c), LOp::Failure) => c.record_failure(),
            (Alg::Aimd(a), LOp::Success(l)) => a.record_success(Duration::from_millis(l)),
            (Alg::Aimd(a), LOp::Failure) => a.record_failure(),
            (Alg::Vegas(v), LOp::Success(l)) => v.record_success(Duration::from_millis(l)),
            (Alg::Vegas(v), LOp::Failure) => v.record_failure(),
        }
    }
}

pub fn run13t(s: &Scn13t, ctx: &mut RunCtx) -> RunOutput {
    let scn = s.clone();
    let cnt = |n: u32| if n == u32::MAX { usize::MAX } else { n as usize };
    let (min, max) = (s.min as usize, cnt(s.max));
    let out = run_shuttle(ctx.rt_seed, s.pct_depth, move |_hist| {
        let cfg = AimdConfig::new()
            .with_initial_limit(cnt(scn.initial))
            .with_min_limit(scn.min as usize)
            .with_max_limit(cnt(scn.max))
            .with_increase_by(scn.increase as usize)
            .with_decrease_factor(scn.factor_eighths as f64 / 8.0);
        let alg = Arc::new(match scn.alg {
            0 => Alg::Ctrl(AimdController::new(cfg)),
            1 => Alg::Aimd(Aimd::new(cfg, Duration::from_millis(20))),
            _ => Alg::Vegas(Vegas::new(cnt(scn.initial), scn.min as usize, cnt(scn.max), scn.alpha as usize, scn.beta as usize)),
        });
        {
            let a = alg.clone();
            let chk: CheckFn = Rc::new(move || {
                let l = a.limit();
                if l < min || l > max {
                    Some(("C13.limit_in_bounds".to_string(), "threads".to_string(), format!("limit() = {} outside [{}, {}]", l, min, max)))
                } else {
                    None
                }
            });
            TS.with(|t| t.borrow_mut().check = Some(chk));
        }
        let mut handles = vec![];
        for (ti, ops) in scn.threads.iter().enumerate() {
            let ops = ops.clone();
            let alg = alg.clone();
            handles.push(shuttle::thread::spawn(move || {
                TID.with(|c| c.set(ti as u8));
                for op in ops {
                    alg.apply(op);
                    TID.with(|c| c.set(ti as u8));
                }
            }));
        }
        for h in handles {
            let _ = h.join();
        }
        TS.with(|t| t.borrow_mut().in_hook = true);
        run_check();
        TS.with(|t| t.borrow_mut().in_hook = false);
    });
    let mut violations = out.violations.clone();
    if let Some(p) = &out.panic {
        violations.push(Violation { rule: "C13.limit_in_bounds".into(), class: "panic".into(), msg: format!("execution panicked: {}", p) });
    }
    violations.sort();
    violations.dedup_by(|a, b| a.rule == b.rule && a.class == b.class);
    let mut hasher = std::collections::hash_map::DefaultHasher::new();
    serde_json::to_string(s).unwrap().hash(&mut hasher);
    out.trace_hash.hash(&mut hasher);
    let overlapped = out.switches > s.threads.len() as u64;
    let mut probes = BTreeMap::new();
    probes.insert("thread_interleaving_runs", 1);
    RunOutput {
        violations,
        faults: BTreeMap::new(),
        probes,
        steps: out.steps,
        vtime_us: 0,
        nontrivial: overlapped,
        digest: hasher.finish(),
        trace: vec![],
        diverged: false,
        summary: json!({"atomic_steps": out.steps, "context_switches": out.switches}),
    }
}
