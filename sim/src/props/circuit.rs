//! Circuit breaker: C04 (sequential histories against the documented state machine),
//! C03 (open circuit shields the inner service) and C09 (half-open trial bound) under
//! concurrency, all on the real `CircuitBreaker` / `CircuitBreakerWithFallback`.

use super::common::*;
use crate::driver::{Prop, RunCtx, RunOutput, Tier};
use crate::exec::{run_sim, Cancel, Hooks, LocalFut, Out, Status, TaskDef};
use crate::inner::{Behaviour, Outcome, Req, Resp, SimErr, SimInner};
use crate::logq::{inner_calls, notes};
use crate::rng::Rng;
use crate::world;
use futures::future::BoxFuture;
use serde::{Deserialize, Serialize};
use serde_json::Value;
use std::collections::VecDeque;
use std::time::Duration;
use tower::{Layer, Service, ServiceExt};
use tower_resilience_circuitbreaker::{
    CircuitBreakerError, CircuitBreakerLayer, CircuitState, SlidingWindowType,
};

#[derive(Clone, Debug, Serialize, Deserialize, PartialEq)]
pub struct Cfg {
    pub time_based: bool,
    pub size: u32,
    pub duration_ms: u64,
    pub min_calls: Option<u32>,
    pub fail_eighths: u32,
    pub wait_ms: u64,
    pub permitted: u32,
    pub slow_ms: Option<u64>,
    pub slow_eighths: u32,
    /// 0 default classifier; 1 custom: Ok flagged requests count as failures, Err kind 1 does not
    pub classifier: u8,
    /// seed of the order in which the builder's setters are called (0 = the order of the docs)
    #[serde(default)]
    pub order: u64,
    /// the custom classifier is installed before (true) or after all other settings
    #[serde(default)]
    pub classifier_first: bool,
    /// thresholds given in hundredths instead of eighths (exact-threshold scenarios)
    #[serde(default)]
    pub fail_hundredths: Option<u32>,
    #[serde(default)]
    pub slow_hundredths: Option<u32>,
}

impl Cfg {
    /// failure-rate threshold as a fraction (numerator, denominator)
    fn fail_frac(&self) -> (usize, usize) {
        match self.fail_hundredths {
            Some(h) => (h as usize, 100),
            None => (self.fail_eighths as usize, 8),
        }
    }
    fn slow_frac(&self) -> (usize, usize) {
        match self.slow_hundredths {
            Some(h) => (h as usize, 100),
            None => (self.slow_eighths as usize, 8),
        }
    }
    fn setter_order(&self) -> Vec<usize> {
        let mut v: Vec<usize> = (0..8).collect();
        if self.order != 0 {
            let mut r = Rng::new(self.order);
            for i in (1..v.len()).rev() {
                let j = r.below(i as u64 + 1) as usize;
                v.swap(i, j);
            }
        }
        v
    }
}

fn cfg_valid(c: &Cfg) -> bool {
    c.size >= 1
        && c.size <= 100
        && c.duration_ms >= 10
        && c.duration_ms <= 500
        && c.min_calls.map(|m| m >= 1 && m <= 110).unwrap_or(true)
        && c.fail_hundredths.map(|h| h <= 100).unwrap_or(true)
        && c.slow_hundredths.map(|h| h <= 100).unwrap_or(true)
        && c.fail_eighths <= 8
        && ((c.wait_ms >= 5 && c.wait_ms <= 500) || c.wait_ms == u64::MAX)
        && c.permitted >= 1
        && c.permitted <= 4
        && c.slow_ms.map(|s| s >= 1 && s <= 100).unwrap_or(true)
        && c.slow_eighths <= 8
        && c.classifier <= 1
}

fn min_calls(c: &Cfg) -> usize {
    c.min_calls.unwrap_or(c.size) as usize
}

macro_rules! build_layer {
    ($cfg:expr, $b:ident => $fin:expr) => {
        build_layer!($cfg, CircuitBreakerLayer::builder(), $b => $fin)
    };
    ($cfg:expr, $start:expr, $b:ident => $fin:expr) => {{
        let c: &Cfg = $cfg;
        let (fnum, fden) = c.fail_frac();
        let (snum, sden) = c.slow_frac();
        let mut $b = $start
            .on_state_transition(|from, to| {
                world::note("transition", from as i64, to as i64);
            })
            .on_call_permitted(|st| {
                world::note("permitted", st as i64, 0);
                let ms = world::with(|w| match w.cb_block {
                    Some((nth, ms, repeat)) => {
                        w.cb_block_seen = w.cb_block_seen.saturating_add(1);
                        if w.cb_block_seen == nth || (repeat && w.cb_block_seen > nth) {
                            ms
                        } else {
                            0
                        }
                    }
                    None => 0,
                });
                if ms > 0 {
                    // a listener that takes its time (a slow log sink): it only observes, so the
                    // time it takes is not part of the call
                    world::block_for(ms);
                }
            })
            .on_call_rejected(|| {
                world::note("rejected", 0, 0);
            });
        for k in c.setter_order() {
            $b = match k {
                0 => $b.failure_rate_threshold(fnum as f64 / fden as f64),
                1 => $b.sliding_window_size(c.size as usize),
                2 => $b.wait_duration_in_open(if c.wait_ms == u64::MAX { Duration::MAX } else { Duration::from_millis(c.wait_ms) }),
                3 => $b.permitted_calls_in_half_open(c.permitted as usize),
                4 => $b.slow_call_rate_threshold(snum as f64 / sden as f64),
                5 if c.time_based => $b
                    .sliding_window_type(SlidingWindowType::TimeBased)
                    .sliding_window_duration(Duration::from_millis(c.duration_ms)),
                6 => match c.min_calls {
                    Some(m) => $b.minimum_number_of_calls(m as usize),
                    None => $b,
                },
                7 => match c.slow_ms {
                    Some(s) => $b.slow_call_duration_threshold(Duration::from_millis(s)),
                    None => $b,
                },
                _ => $b,
            };
        }
        $fin
    }};
}

fn st_code(s: CircuitState) -> u8 {
    match s {
        CircuitState::Closed => 0,
        CircuitState::Open => 1,
        CircuitState::HalfOpen => 2,
    }
}

// ------------------------------------------------------------------------------------------
// Reference model (a family of variants for documented ambiguities and ties)
// ------------------------------------------------------------------------------------------

#[derive(Clone, Debug)]
struct Rec {
    t: u64,
    fail: bool,
    slow: bool,
}

#[derive(Clone, Debug)]
struct Model {
    flags: u8,
    state: u8,
    opened_at: u64,
    window: VecDeque<Rec>,
    since_transition: usize,
    ho_successes: usize,
}

const F_MIN_IN_WINDOW: u8 = 1; // minimum_number_of_calls counted among calls in the window (else: since last transition)
const F_FO_RESTART: u8 = 2; // force_open while open restarts the wait
const F_FC_CLEAR: u8 = 4; // force_closed while closed empties the window
const F_WAIT_TIE: u8 = 8; // a call exactly wait_duration after opening is admitted
const F_EXPIRE_EQ: u8 = 16; // a record exactly window_duration old is already outside the window
const N_VARIANTS: u8 = 32;

impl Model {
    fn new(flags: u8) -> Self {
        Model { flags, state: 0, opened_at: 0, window: VecDeque::new(), since_transition: 0, ho_successes: 0 }
    }
    fn has(&self, f: u8) -> bool {
        self.flags & f != 0
    }
    fn clear(&mut self) {
        self.window.clear();
        self.since_transition = 0;
        self.ho_successes = 0;
    }
    fn to(&mut self, s: u8, now: u64) {
        self.state = s;
        if s == 1 {
            self.opened_at = now;
        }
        self.clear();
    }
    fn expire(&mut self, c: &Cfg, now: u64) -> bool {
        let mut any = false;
        if c.time_based {
            let d = c.duration_ms * 1000;
            while let Some(f) = self.window.front() {
                let age = now - f.t;
                if age > d || (age == d && self.has(F_EXPIRE_EQ)) {
                    self.window.pop_front();
                    any = true;
                } else {
                    break;
                }
            }
        }
        any
    }
    fn arrive(&mut self, c: &Cfg, now: u64) -> bool {
        match self.state {
            0 | 2 => true,
            _ => {
                let el = now - self.opened_at;
                let w = c.wait_ms.saturating_mul(1000);
                if el > w || (el == w && self.has(F_WAIT_TIE)) {
                    self.to(2, now);
                    true
                } else {
                    false
                }
            }
        }
    }
    fn record(&mut self, c: &Cfg, now: u64, fail: bool, slow: bool) {
        match self.state {
            2 => {
                if fail {
                    self.to(1, now);
                } else {
                    self.ho_successes += 1;
                    if self.ho_successes >= c.permitted as usize {
                        self.to(0, now);
                    }
                }
            }
            _ => {
                self.expire(c, now);
                self.window.push_back(Rec { t: now, fail, slow });
                self.since_transition += 1;
                if !c.time_based {
                    while self.window.len() > c.size as usize {
                        self.window.pop_front();
                    }
                }
                if self.state == 0 {
                    let n = self.window.len();
                    let counted = if self.has(F_MIN_IN_WINDOW) { n } else { self.since_transition };
                    if counted < min_calls(c) || n == 0 {
                        return;
                    }
                    if !c.time_based && n < c.size as usize {
                        return;
                    }
                    let fails = self.window.iter().filter(|r| r.fail).count();
                    let slows = self.window.iter().filter(|r| r.slow).count();
                    let (fnum, fden) = c.fail_frac();
                    let (snum, sden) = c.slow_frac();
                    let open = fails * fden >= fnum * n || (c.slow_ms.is_some() && slows * sden >= snum * n);
                    if open {
                        self.to(1, now);
                    }
                }
            }
        }
    }
    fn force_open(&mut self, now: u64) {
        if self.state == 1 {
            if self.has(F_FO_RESTART) {
                self.opened_at = now;
            }
        } else {
            self.to(1, now);
        }
    }
    fn force_closed(&mut self, now: u64) {
        if self.state == 0 {
            // documented contrast: force_closed "forces the circuit into the closed state",
            // reset "resets the circuit to the closed state and clears counts": forcing an
            // already closed breaker closed changes nothing (F_FC_CLEAR is no longer a variant)
            let _ = F_FC_CLEAR;
        } else {
            self.to(0, now);
        }
    }
    fn reset(&mut self, now: u64) {
        self.to(0, now);
    }
}

// ------------------------------------------------------------------------------------------
// C04: sequential histories
// ------------------------------------------------------------------------------------------

#[derive(Clone, Debug, Serialize, Deserialize, PartialEq)]
pub enum Step {
    Call { lat_ms: u64, err: Option<u8>, flag: bool },
    Advance(u64),
    ForceOpen,
    ForceClosed,
    Reset,
    /// a call through a second service built from the same layer (its own breaker: nothing
    /// it does may show in the first one)
    Other { err: bool },
}

#[derive(Clone, Debug, Serialize, Deserialize, PartialEq)]
pub struct Scn4 {
    pub cfg: Cfg,
    pub steps: Vec<Step>,
    /// (n, ms, repeat): the call-permitted listener blocks the thread for `ms` at the n-th
    /// permitted call (and every later one if `repeat`)
    #[serde(default)]
    pub block: Option<(u8, u64, bool)>,
}

fn gen_cfg(rng: &mut Rng, small: bool) -> Cfg {
    let size = if small { rng.range(1, 4) } else { rng.range(1, 6) } as u32;
    let min_calls = match rng.below(4) {
        0 => None,
        1 => Some(size),
        2 => Some(rng.range(1, size as u64) as u32),
        _ => Some(if small { size } else { size + rng.range(1, 3) as u32 }),
    };
    Cfg {
        time_based: rng.chance(1, 2),
        size,
        duration_ms: *rng.pick(&[50u64, 100]),
        min_calls,
        fail_eighths: *rng.pick(&[0u32, 1, 2, 4, 4, 4, 5, 6, 8, 8]),
        // u64::MAX stands for Duration::MAX ("never recover automatically")
        wait_ms: *rng.pick(&[30u64, 30, 30, 100, 100, 100, 100, u64::MAX]),
        permitted: rng.range(1, 3) as u32,
        slow_ms: if rng.chance(1, 3) { Some(20) } else { None },
        slow_eighths: *rng.pick(&[0u32, 4, 4, 6, 8, 8]),
        classifier: if rng.chance(1, 4) { 1 } else { 0 },
        order: if rng.chance(1, 2) { rng.next_u64() | 1 } else { 0 },
        classifier_first: rng.chance(1, 2),
        fail_hundredths: None,
        slow_hundredths: None,
    }
}

/// A full window whose failure (or slow-call) count sits exactly on, one below or one above the
/// threshold: thresholds k/n for window sizes up to 100.
fn gen4_exact(rng: &mut Rng) -> Scn4 {
    let mut cfg = gen_cfg(rng, false);
    let n = *rng.pick(&[10u32, 20, 25, 50, 100, 100]);
    let k = rng.range(1, n as u64 - 1) as u32;
    let h = 100 * k / n;
    cfg.size = n;
    cfg.time_based = rng.chance(1, 3);
    cfg.duration_ms = 100;
    cfg.min_calls = *rng.pick(&[None, None, Some(n), Some(n / 2)]);
    let on_slow = rng.chance(1, 3);
    if on_slow {
        cfg.slow_ms = Some(20);
        cfg.slow_hundredths = Some(h);
        cfg.fail_hundredths = Some(100);
        cfg.fail_eighths = 8;
    } else {
        cfg.fail_hundredths = Some(h);
        cfg.slow_hundredths = Some(100);
        if cfg.slow_ms.is_some() {
            cfg.slow_eighths = 8;
        }
    }
    cfg.classifier = 0;
    // n calls, `bad` of them failing (or slow), in a seeded order; then a few more
    let bad = (k as i64 + *rng.pick(&[-1i64, 0, 0, 0, 1])).clamp(0, n as i64) as u32;
    let mut marks: Vec<bool> = (0..n).map(|i| i < bad).collect();
    for i in (1..marks.len()).rev() {
        let j = rng.below(i as u64 + 1) as usize;
        marks.swap(i, j);
    }
    let mut steps = vec![];
    for m in marks {
        steps.push(if on_slow {
            Step::Call { lat_ms: if m { 30 } else { 0 }, err: None, flag: false }
        } else {
            Step::Call { lat_ms: 0, err: if m { Some(0) } else { None }, flag: false }
        });
    }
    for _ in 0..rng.range(0, 12) {
        let bad = rng.chance(1, 2);
        steps.push(if on_slow {
            Step::Call { lat_ms: if bad { 30 } else { 0 }, err: None, flag: false }
        } else {
            Step::Call { lat_ms: 0, err: if bad { Some(0) } else { None }, flag: false }
        });
    }
    Scn4 { cfg, steps, block: None }
}

pub fn gen4(rng: &mut Rng) -> Scn4 {
    if rng.chance(1, 8) {
        return gen4_exact(rng);
    }
    let cfg = gen_cfg(rng, false);
    let n = rng.range(10, 80) as usize;
    let p_fail = *rng.pick(&[15u64, 40, 50, 60, 85]);
    let siblings = rng.chance(1, 3);
    let mut steps = vec![];
    for _ in 0..n {
        let r = rng.below(100);
        let s = if r < 70 {
            let slow = cfg.slow_ms.is_some() && rng.chance(1, 3);
            let lat_ms = if slow { *rng.pick(&[30u64, 50]) } else { *rng.pick(&[0u64, 0, 5, 10]) };
            let fail = rng.below(100) < p_fail;
            Step::Call {
                lat_ms,
                err: if fail { Some(if rng.chance(1, 5) { 1 } else { 0 }) } else { None },
                flag: !fail && rng.chance(1, 6),
            }
        } else if r < 74 && siblings {
            Step::Other { err: rng.chance(2, 3) }
        } else if r < 88 {
            Step::Advance(*rng.pick(&[5u64, 10, 20, 25, 30, 30, 50, 70, 100, 100, 150]))
        } else if r < 92 {
            Step::ForceOpen
        } else if r < 95 {
            Step::ForceClosed
        } else {
            Step::Reset
        };
        steps.push(s);
    }
    let block = if rng.chance(1, 6) { Some((rng.range(1, 4) as u8, *rng.pick(&[3u64, 19, 20, 25, 60]), rng.chance(2, 3))) } else { None };
    Scn4 { cfg, steps, block }
}

pub fn valid4(s: &Scn4) -> bool {
    cfg_valid(&s.cfg)
        && !s.steps.is_empty()
        && s.steps.len() <= 260
        && s.block.map(|b| b.0 >= 1 && b.0 <= 8 && b.1 >= 1 && b.1 <= 200).unwrap_or(true)
        && s.steps.iter().all(|st| match st {
            Step::Call { lat_ms, err, .. } => *lat_ms <= 100 && err.map(|k| k <= 1).unwrap_or(true) && s.cfg.slow_ms.map(|t| *lat_ms != t).unwrap_or(true),
            Step::Advance(d) => *d >= 1 && *d <= 500,
            _ => true,
        })
}

#[derive(Clone, Copy, Debug, PartialEq)]
struct Views {
    st: u8,
    sync: u8,
    is_open: bool,
    metrics: u8,
}

pub fn run4(s: &Scn4, ctx: &mut RunCtx) -> RunOutput {
    world::reset();
    let mut cfgs = crate::exec::SimCfg::default();
    cfgs.horizon_ms = 200_000;
    cfgs.rt_seed = ctx.rt_seed;
    cfgs.max_steps = 20_000;
    let scn = s.clone();
    let setup = move || {
        let cfg = scn.cfg.clone();
        let steps = scn.steps.clone();
        // scripts: request id = step index
        world::with(|w| {
            w.cb_block = scn.block;
            for (i, st) in steps.iter().enumerate() {
                if let Step::Call { lat_ms, err, .. } = st {
                    w.script.by_req.insert(
                        (0, i as u32),
                        vec![Behaviour { lat_ms: *lat_ms, out: match err { Some(k) => Outcome::Err(*k), None => Outcome::Ok }, yields: 0 }],
                    );
                }
                if let Step::Other { err } = st {
                    w.script.by_req.insert((1, i as u32), vec![Behaviour { lat_ms: 0, out: if *err { Outcome::Err(0) } else { Outcome::Ok }, yields: 0 }]);
                }
            }
        });
        let flagged: std::collections::HashSet<u32> = steps
            .iter()
            .enumerate()
            .filter_map(|(i, st)| match st {
                Step::Call { flag: true, .. } => Some(i as u32),
                _ => None,
            })
            .collect();
        let make: Box<dyn FnOnce() -> LocalFut> = if cfg.classifier == 0 {
            let layer = build_layer!(&cfg, b => b.build());
            let svc = layer.layer(SimInner::new(0));
            let svc_b = layer.layer(SimInner::new(1));
            Box::new(move || Box::pin(drive4(cfg, steps, svc, svc_b, flagged)))
        } else {
            let fl = flagged.clone();
            let classify = move |r: &Result<Resp, SimErr>| match r {
                Ok(resp) => fl.contains(&resp.req),
                Err(e) => e.kind == 0,
            };
            let layer = if cfg.classifier_first {
                build_layer!(&cfg, CircuitBreakerLayer::builder().failure_classifier(classify), b => b.build())
            } else {
                build_layer!(&cfg, b => b.failure_classifier(classify).build())
            };
            let svc = layer.layer(SimInner::new(0));
            let svc_b = layer.layer(SimInner::new(1));
            Box::new(move || Box::pin(drive4(cfg, steps, svc, svc_b, flagged)))
        };
        vec![TaskDef { start_ms: 0, make, cancel: Cancel::Never }]
    };
    let mut step = |_k| {};
    let mut idle = || {};
    let rep = run_sim(cfgs, &mut ctx.chooser, setup, Hooks { step: &mut step, idle: &mut idle });
    if rep.tasks[0].status != Status::Resolved {
        world::violation("C04.state", "harness", format!("history did not complete: {:?} {:?}", rep.tasks[0].status, rep.tasks[0].panic_msg));
    }
    let nontrivial = rep.tasks[0].out.as_ref().map(|o| o.aux >= 2).unwrap_or(false);
    let w = world::take();
    finish(w, ctx, &rep, "C04", nontrivial, serde_json::json!({"transitions_observed": rep.tasks[0].out.as_ref().map(|o| o.aux)}))
}

macro_rules! views {
    ($svc:expr) => {{
        let st = st_code($svc.state().await);
        let sync = st_code($svc.state_sync());
        let is_open = $svc.is_open();
        let metrics = st_code($svc.metrics().await.state);
        Views { st, sync, is_open, metrics }
    }};
}

async fn drive4<C>(
    cfg: Cfg,
    steps: Vec<Step>,
    mut svc: tower_resilience_circuitbreaker::CircuitBreaker<SimInner, C>,
    mut svc_b: tower_resilience_circuitbreaker::CircuitBreaker<SimInner, C>,
    flagged: std::collections::HashSet<u32>,
) -> Out
where
    C: tower_resilience_circuitbreaker::FailureClassifierTrait<Resp, SimErr> + Send + Sync + 'static,
{
    let mut models: Vec<Model> = (0..N_VARIANTS).map(Model::new).collect();
    let mut transitions = 0i64;
    let mut last_state = 0u8;
    // context for the violation class
    let mut recorded_since_transition = 0usize;
    let mut reset_while_closed = false;
    let mut expired_since_transition = false;
    for (i, st) in steps.iter().enumerate() {
        let mut admitted_obs: Option<bool> = None;
        let mut detail = String::new();
        match st {
            Step::Call { lat_ms, err, .. } => {
                let before = world::with(|w| w.calls_by_req.get(&(0, i as u32)).copied().unwrap_or(0));
                let t_arr = world::now_us();
                let blocked0 = world::with(|w| w.blocked_ms);
                let r = match svc.ready().await {
                    Ok(s) => s.call(Req { id: i as u32, key: 0 }).await,
                    Err(e) => Err(e),
                };
                let t_done = world::now_us();
                // time the call-permitted listener blocked: after the admission decision, before
                // the inner call starts; not part of the call's duration
                let t_start = t_arr + (world::with(|w| w.blocked_ms) - blocked0) * 1000;
                let after = world::with(|w| w.calls_by_req.get(&(0, i as u32)).copied().unwrap_or(0));
                let admitted = after > before;
                admitted_obs = Some(admitted);
                // model
                let fail = match (cfg.classifier, err) {
                    (0, e) => e.is_some(),
                    (_, Some(k)) => *k == 0,
                    (_, None) => flagged.contains(&(i as u32)),
                };
                let slow = cfg.slow_ms.map(|t| *lat_ms >= t).unwrap_or(false);
                for m in models.iter_mut() {
                    let adm = m.arrive(&cfg, t_arr);
                    if adm {
                        if m.expire(&cfg, t_start + lat_ms * 1000) {
                            expired_since_transition = true;
                        }
                        m.record(&cfg, t_start + lat_ms * 1000, fail, slow);
                    }
                    // remember admission in a scratch slot (ho_successes untouched): encode via since_transition? keep separate below
                    m.flags = (m.flags & 0x3f) | if adm { 0x40 } else { 0 };
                }
                if admitted {
                    recorded_since_transition += 1;
                }
                // result checks
                match (&r, admitted) {
                    (Err(CircuitBreakerError::OpenCircuit), false) => {
                        if t_done != t_arr {
                            world::violation("C04.admission", "reject_not_immediate", format!("step {}: rejected call took {}us", i, t_done - t_arr));
                        }
                    }
                    (Err(CircuitBreakerError::OpenCircuit), true) => world::violation("C04.admission", "open_error_after_inner", format!("step {}: inner service called but caller got OpenCircuit", i)),
                    (_, false) => world::violation("C04.admission", "result_without_inner", format!("step {}: inner not called but result is not OpenCircuit", i)),
                    (Ok(resp), true) => {
                        if err.is_some() || resp.req != i as u32 {
                            world::violation("C04.admission", "wrong_result", format!("step {}: scripted {:?}, got Ok({:?})", i, err, resp));
                        }
                    }
                    (Err(CircuitBreakerError::Inner(e)), true) => {
                        if *err != Some(e.kind) || e.req != i as u32 {
                            world::violation("C04.admission", "wrong_result", format!("step {}: scripted {:?}, got Err({:?})", i, err, e));
                        }
                    }
                }
                detail = format!("call lat={}ms err={:?} fail={} slow={} admitted={}", lat_ms, err, fail, slow, admitted);
            }
            Step::Advance(d) => {
                tokio::time::sleep(Duration::from_millis(*d)).await;
            }
            Step::Other { .. } => {
                world::probe("call_through_sibling_service");
                let _ = match svc_b.ready().await {
                    Ok(s) => s.call(Req { id: i as u32, key: 0 }).await,
                    Err(e) => Err(e),
                };
            }
            Step::ForceOpen => {
                svc.force_open().await;
                let now = world::now_us();
                for m in models.iter_mut() {
                    m.force_open(now);
                }
            }
            Step::ForceClosed => {
                svc.force_closed().await;
                let now = world::now_us();
                for m in models.iter_mut() {
                    m.force_closed(now);
                }
            }
            Step::Reset => {
                if last_state == 0 {
                    reset_while_closed = true;
                    world::probe("reset_while_closed");
                }
                svc.reset().await;
                let now = world::now_us();
                for m in models.iter_mut() {
                    m.reset(now);
                }
            }
        }
        let v = views!(svc);
        if !(v.st == v.sync && v.st == v.metrics && v.is_open == (v.st == 1)) {
            world::violation("C04.views_agree", "", format!("step {} ({:?}): state()={} state_sync()={} is_open()={} metrics.state={}", i, st, v.st, v.sync, v.is_open, v.metrics));
            return Out { aux: transitions, ..Default::default() };
        }
        // keep the variants consistent with what was observed
        let before_n = models.len();
        let survivors: Vec<Model> = models
            .iter()
            .filter(|m| m.state == v.st && admitted_obs.map(|a| a == (m.flags & 0x40 != 0)).unwrap_or(true))
            .cloned()
            .collect();
        if survivors.is_empty() {
            let expect: Vec<(u8, bool)> = {
                let mut e: Vec<(u8, bool)> = models.iter().map(|m| (m.state, m.flags & 0x40 != 0)).collect();
                e.sort();
                e.dedup();
                e
            };
            let class = if reset_while_closed {
                "reset_while_closed"
            } else if !cfg.time_based && recorded_since_transition > cfg.size as usize {
                "window_slid"
            } else if cfg.time_based && expired_since_transition {
                "time_based_expiry"
            } else if last_state == 2 || v.st == 2 {
                "half_open"
            } else {
                "other"
            };
            let rule = if admitted_obs.is_some() && !expect.iter().any(|(_, a)| Some(*a) == admitted_obs) { "C04.admission" } else { "C04.state" };
            world::violation(
                rule,
                class,
                format!(
                    "step {} {:?} [{}]: observed state={} admitted={:?}; the documented machine allows (state, admitted) in {:?} ({} variants alive before); cfg={:?}; {} calls recorded since the last transition",
                    i, st, detail, v.st, admitted_obs, expect, before_n, cfg, recorded_since_transition
                ),
            );
            return Out { aux: transitions, ..Default::default() };
        }
        models = survivors;
        if v.st != last_state {
            transitions += 1;
            last_state = v.st;
            recorded_since_transition = 0;
            reset_while_closed = false;
            expired_since_transition = false;
            match v.st {
                1 => world::probe("opened"),
                2 => world::probe("half_opened"),
                _ => world::probe("closed_again"),
            }
        } else if matches!(st, Step::Reset | Step::ForceClosed) && v.st == 0 {
            // window emptied by the override
            if matches!(st, Step::Reset) {
                recorded_since_transition = 0;
            }
        }
        if !cfg.time_based && recorded_since_transition > cfg.size as usize {
            world::probe("history_longer_than_window");
        }
    }
    Out { aux: transitions, ..Default::default() }
}

// ------------------------------------------------------------------------------------------
// C03 / C09: concurrent callers
// ------------------------------------------------------------------------------------------

#[derive(Clone, Debug, Serialize, Deserialize, PartialEq)]
pub struct Caller {
    pub start_ms: u64,
    pub beh: Behaviour,
    pub cancel: CancelSpec,
    /// with a fallback configured: this caller goes through a plain clone taken before
    /// `with_fallback` (same breaker, no fallback)
    #[serde(default)]
    pub via_plain: bool,
}

#[derive(Clone, Debug, Serialize, Deserialize, PartialEq)]
pub struct Scn3 {
    pub cfg: Cfg,
    pub fallback_ms: Option<u64>,
    pub callers: Vec<Caller>,
    pub force_open_at: Option<u64>,
    pub force_closed_at: Option<u64>,
    pub reset_at: Option<u64>,
    pub probe: bool,
    /// seed of the cooperative yields before the breaker takes its state lock (0 = none)
    #[serde(default)]
    pub buggify: u64,
    pub knobs: SchedKnobs,
    /// with a fallback configured: manual overrides go through a plain clone taken before
    /// `with_fallback`
    #[serde(default)]
    pub overrides_via_plain: bool,
    /// the wrapped service takes only this many calls at a time (readiness waits for a slot)
    #[serde(default)]
    pub inner_capacity: Option<u32>,
}

/// Multi-phase half-open histories: trials that outlive their episode, cancels aimed at
/// running trials of an earlier episode, bursts at every re-probe instant.
fn gen3_multi_phase(rng: &mut Rng) -> Scn3 {
    let mut cfg = gen_cfg(rng, true);
    cfg.classifier = 0;
    cfg.permitted = rng.range(2, 3) as u32;
    cfg.wait_ms = 30;
    if cfg.fail_eighths == 0 {
        cfg.fail_eighths = 4;
    }
    if let Some(m) = cfg.min_calls {
        cfg.min_calls = Some(m.min(cfg.size));
    }
    let wait = cfg.wait_ms;
    let mut callers = vec![];
    let bursts = rng.range(2, 5);
    let mut t = 1 + wait + *rng.pick(&[0u64, 0, 1, 5]);
    for _ in 0..bursts {
        let k = rng.range(1, 4);
        for j in 0..k {
            let lat_ms = *rng.pick(&[0u64, 0, 5, 10, wait / 2, wait + 10, wait + 20, 2 * wait + 20, 3 * wait]);
            let start_ms = t + if j > 0 && rng.chance(1, 3) { *rng.pick(&[1u64, 5, 10]) } else { 0 };
            callers.push(Caller {
                start_ms,
                beh: Behaviour { lat_ms, out: if rng.chance(2, 5) { Outcome::Err(0) } else { Outcome::Ok }, yields: *rng.pick(&[0u8, 0, 1]) },
                cancel: if rng.chance(3, 10) { CancelSpec::AtMs(start_ms + *rng.pick(&[5u64, wait, wait + 5, wait + 15, 2 * wait + 10])) } else { CancelSpec::Never },
                via_plain: rng.chance(1, 4),
            });
            if callers.len() >= 15 {
                break;
            }
        }
        t += wait + *rng.pick(&[0u64, 0, 5, 10, 20]);
        if callers.len() >= 15 {
            break;
        }
    }
    // a trial that takes longer than a second, and callers who arrive meanwhile: a slow trial is
    // still a trial in flight
    if rng.chance(1, 4) && callers.len() <= 12 {
        let t0 = 1 + wait;
        callers.push(Caller { start_ms: t0, beh: Behaviour { lat_ms: *rng.pick(&[1300u64, 1600]), out: Outcome::Ok, yields: 0 }, cancel: CancelSpec::Never, via_plain: false });
        for k in 0..rng.range(1, 2) {
            callers.push(Caller { start_ms: t0 + 1100 + 60 * k, beh: Behaviour { lat_ms: *rng.pick(&[0u64, 10]), out: Outcome::Ok, yields: 0 }, cancel: CancelSpec::Never, via_plain: false });
        }
    }
    Scn3 {
        cfg,
        fallback_ms: if rng.chance(1, 4) { Some(0) } else { None },
        callers,
        force_open_at: Some(rng.below(2)),
        force_closed_at: None,
        reset_at: None,
        probe: true,
        buggify: if rng.chance(1, 2) { rng.next_u64() | 1 } else { 0 },
        inner_capacity: if rng.chance(1, 6) { Some(rng.range(1, 2) as u32) } else { None },
        overrides_via_plain: rng.chance(1, 2),
        knobs: SchedKnobs::gen(rng, false, 100),
    }
}

pub fn gen3(rng: &mut Rng, half_open_bias: bool) -> Scn3 {
    if half_open_bias && rng.chance(1, 2) {
        return gen3_multi_phase(rng);
    }
    let mut cfg = gen_cfg(rng, true);
    cfg.classifier = 0;
    if cfg.fail_eighths == 0 {
        cfg.fail_eighths = 4;
    }
    if let Some(m) = cfg.min_calls {
        cfg.min_calls = Some(m.min(cfg.size));
    }
    let wait = if cfg.wait_ms == u64::MAX { 50 } else { cfg.wait_ms };
    let n = rng.range(3, if half_open_bias { 14 } else { 10 }) as usize;
    let mut callers = vec![];
    let faulty = rng.chance(1, 2);
    // wave 1: open it
    let p_fail = *rng.pick(&[50u64, 70, 90, 100]);
    let w1 = rng.range(1, 5) as usize;
    for _ in 0..w1.min(n) {
        let start_ms = *rng.pick(&[0u64, 0, 0, 1, 5, 5, 10]);
        let slow = cfg.slow_ms.is_some() && rng.chance(1, 3);
        callers.push(Caller {
            start_ms,
            beh: Behaviour {
                lat_ms: if slow { *rng.pick(&[30u64, 50]) } else { *rng.pick(&[0u64, 5, 10, 15, 25, 40]) },
                out: if rng.below(100) < p_fail { Outcome::Err(0) } else { Outcome::Ok },
                yields: *rng.pick(&[0u8, 0, 1, 2]),
            },
            cancel: if faulty { gen_cancel(rng, start_ms, 10) } else { CancelSpec::Never },
            via_plain: rng.chance(1, 4),
        });
    }
    // later bursts around the open episode and the half-open instant
    let mut burst = 0u64;
    while callers.len() < n {
        if rng.chance(1, 2) || burst == 0 {
            burst = match rng.below(5) {
                0 => rng.below(wait + 10),
                1 => wait + rng.below(40),
                2 => *rng.pick(&[wait, wait + 5, wait + 10, wait + 15, wait + 25, wait + 40]),
                3 => rng.below(3 * wait),
                _ => 2 * wait + rng.below(60),
            };
        }
        let p_ok = if half_open_bias { 60 } else { 40 };
        callers.push(Caller {
            start_ms: burst,
            beh: Behaviour {
                lat_ms: *rng.pick(&[0u64, 0, 5, 10, 20, 30, 50]),
                out: if rng.below(100) < p_ok { Outcome::Ok } else { Outcome::Err(0) },
                yields: *rng.pick(&[0u8, 0, 1]),
            },
            cancel: if faulty { gen_cancel(rng, burst, 15) } else { CancelSpec::Never },
            via_plain: rng.chance(1, 4),
        });
    }
    Scn3 {
        cfg,
        fallback_ms: if rng.chance(1, 3) { Some(*rng.pick(&[0u64, 5])) } else { None },
        callers,
        force_open_at: if rng.chance(1, 4) { Some(rng.below(2 * wait)) } else { None },
        force_closed_at: if rng.chance(1, 8) { Some(rng.below(3 * wait)) } else { None },
        reset_at: if rng.chance(1, 8) { Some(rng.below(3 * wait)) } else { None },
        probe: true,
        buggify: if rng.chance(1, 3) { rng.next_u64() | 1 } else { 0 },
        inner_capacity: if rng.chance(1, 6) { Some(rng.range(1, 2) as u32) } else { None },
        overrides_via_plain: rng.chance(1, 2),
        knobs: SchedKnobs::gen(rng, faulty, 2 * wait),
    }
}

pub fn valid3(s: &Scn3) -> bool {
    cfg_valid(&s.cfg)
        && s.cfg.classifier == 0
        && !s.callers.is_empty()
        && s.callers.len() <= 16
        && s.callers.iter().all(|c| c.start_ms <= 1500 && c.beh.lat_ms <= 2000 && c.beh.yields <= 4 && matches!(c.beh.out, Outcome::Ok | Outcome::Err(0) | Outcome::Never))
        && s.fallback_ms.map(|f| f <= 20).unwrap_or(true)
        && s.force_open_at.map(|t| t <= 1500).unwrap_or(true)
        && s.force_closed_at.map(|t| t <= 1500).unwrap_or(true)
        && s.reset_at.map(|t| t <= 1500).unwrap_or(true)
        && s.knobs.jumps.len() <= 3
        && s.knobs.jumps.iter().all(|j| j.0 <= 1500 && j.1 <= 200)
        && s.inner_capacity.map(|c| c >= 1 && c <= 4).unwrap_or(true)
}

#[derive(Clone)]
enum Cb {
    Plain(tower_resilience_circuitbreaker::CircuitBreaker<SimInner, tower_resilience_circuitbreaker::DefaultClassifier>),
    Fb(tower_resilience_circuitbreaker::CircuitBreakerWithFallback<SimInner, tower_resilience_circuitbreaker::DefaultClassifier, Req, Resp, SimErr>),
}

impl Cb {
    fn state_sync(&self) -> CircuitState {
        match self {
            Cb::Plain(c) => c.state_sync(),
            Cb::Fb(c) => c.state_sync(),
        }
    }
    fn is_open(&self) -> bool {
        match self {
            Cb::Plain(c) => c.is_open(),
            Cb::Fb(c) => c.is_open(),
        }
    }
    async fn force_open(&self) {
        match self {
            Cb::Plain(c) => c.force_open().await,
            Cb::Fb(c) => c.force_open().await,
        }
    }
    async fn force_closed(&self) {
        match self {
            Cb::Plain(c) => c.force_closed().await,
            Cb::Fb(c) => c.force_closed().await,
        }
    }
    async fn reset(&self) {
        match self {
            Cb::Plain(c) => c.reset().await,
            Cb::Fb(c) => c.reset().await,
        }
    }
    async fn call(&mut self, req: Req) -> Result<Resp, CircuitBreakerError<SimErr>> {
        // arrival = the call itself: with a wrapped service that is not always ready the caller
        // has to wait for readiness first, as the Tower contract demands
        match self {
            Cb::Plain(c) => match c.ready().await {
                Ok(s) => {
                    world::note("arrive", req.id as i64, 0);
                    s.call(req).await
                }
                Err(e) => Err(e),
            },
            Cb::Fb(c) => match c.ready().await {
                Ok(s) => {
                    world::note("arrive", req.id as i64, 0);
                    s.call(req).await
                }
                Err(e) => Err(e),
            },
        }
    }
}

const FB_SVC: u8 = 9;

pub fn run3(s: &Scn3, ctx: &mut RunCtx, prefix: &'static str) -> RunOutput {
    world::reset();
    let last = s.callers.iter().map(|c| c.start_ms).max().unwrap_or(0);
    let finite_wait = if s.cfg.wait_ms == u64::MAX { 100 } else { s.cfg.wait_ms };
    let probe_at = last.max(s.force_open_at.unwrap_or(0)).max(s.reset_at.unwrap_or(0)).max(s.force_closed_at.unwrap_or(0)) + 3 * finite_wait + 400 + s.knobs.total_jump();
    let cfg = s.knobs.cfg(ctx, probe_at + 2000, 0);
    let scn = s.clone();
    let n = s.callers.len();
    let handle: std::rc::Rc<std::cell::RefCell<Option<Cb>>> = Default::default();
    let handle2 = handle.clone();
    let setup = move || {
        world::with(|w| {
            for (i, c) in scn.callers.iter().enumerate() {
                w.script.by_req.insert((0, i as u32), vec![c.beh]);
            }
            w.script.by_req.insert((0, n as u32), vec![Behaviour { lat_ms: 0, out: Outcome::Ok, yields: 0 }]);
            if let Some(c) = scn.inner_capacity {
                w.script.capacity.insert(0, c as i64);
            }
            w.buggify_state = scn.buggify;
            w.buggify_rate = if scn.buggify != 0 { 30 } else { 0 };
        });
        tower_resilience_core::verif::set_async_yield_hook(Some(world::hook_async_yield));
        let layer = build_layer!(&scn.cfg, b => b.build());
        let plain = layer.layer(SimInner::new(0));
        let plain_clone = Cb::Plain(plain.clone());
        let base = match scn.fallback_ms {
            None => Cb::Plain(plain),
            Some(fl) => Cb::Fb(plain.with_fallback(move |req: Req| -> BoxFuture<'static, Result<Resp, SimErr>> {
                Box::pin(async move {
                    world::note("fallback", req.id as i64, 0);
                    if fl > 0 {
                        tokio::time::sleep(Duration::from_millis(fl)).await;
                    }
                    Ok(Resp { req: req.id, serial: 1_000_000 + req.id as u64, svc: FB_SVC })
                })
            })),
        };
        *handle2.borrow_mut() = Some(base.clone());
        let mut defs = vec![];
        let mk_call = |svc: Cb, id: u32| -> Box<dyn FnOnce() -> LocalFut> {
            Box::new(move || {
                Box::pin(async move {
                    let mut svc = svc;
                    match svc.call(Req { id, key: 0 }).await {
                        Ok(r) => Out::ok(r),
                        Err(CircuitBreakerError::OpenCircuit) => Out::err("OpenCircuit", None),
                        Err(CircuitBreakerError::Inner(e)) => Out::err("Inner", Some(e)),
                    }
                })
            })
        };
        for (i, c) in scn.callers.iter().enumerate() {
            let h = if c.via_plain { plain_clone.clone() } else { base.clone() };
            defs.push(TaskDef { start_ms: c.start_ms, make: mk_call(h, i as u32), cancel: c.cancel.to_cancel() });
        }
        // task n: late probe
        defs.push(TaskDef { start_ms: if scn.probe { probe_at } else { u64::MAX / 4 }, make: mk_call(base.clone(), n as u32), cancel: Cancel::Never });
        // manual overrides
        for (kind, at) in [(1i64, scn.force_open_at), (2, scn.force_closed_at), (3, scn.reset_at)] {
            if let Some(at) = at {
                let h = if scn.overrides_via_plain { plain_clone.clone() } else { base.clone() };
                let make: Box<dyn FnOnce() -> LocalFut> = Box::new(move || {
                    Box::pin(async move {
                        world::note("manual", kind, 0);
                        match kind {
                            1 => h.force_open().await,
                            2 => h.force_closed().await,
                            _ => h.reset().await,
                        }
                        world::note("manual_done", kind, 0);
                        Out::unit()
                    })
                });
                defs.push(TaskDef { start_ms: at, make, cancel: Cancel::Never });
            }
        }
        defs
    };
    // lock-free view must agree with the transitions announced to listeners (checked between steps)
    let mut step = |_k| {
        if let Some(h) = handle.borrow().as_ref() {
            let sync = st_code(h.state_sync());
            let announced = world::with(|w| {
                w.log.iter().rev().find_map(|r| match &r.ev {
                    world::Ev::Note { tag: "transition", b, .. } => Some(*b as u8),
                    _ => None,
                })
            })
            .unwrap_or(0);
            if sync != announced || h.is_open() != (sync == 1) {
                world::violation("C03.views", "", format!("t={}us: state_sync()={} is_open()={} but the last announced transition went to {}", world::now_us(), sync, h.is_open(), announced));
            }
        }
    };
    let mut idle = || {};
    let rep = run_sim(cfg, &mut ctx.chooser, setup, Hooks { step: &mut step, idle: &mut idle });
    tower_resilience_core::verif::set_async_yield_hook(None);
    drop(handle);
    let log = world::with(|w| std::mem::take(&mut w.log));
    let calls = inner_calls(&log);
    let wait = s.cfg.wait_ms.saturating_mul(1000);
    let tr: Vec<(u64, u64, u8, u8)> = notes(&log, "transition").map(|(r, a, b)| (r.seq, r.t_us, a as u8, b as u8)).collect();
    let manual: Vec<(u64, i64)> = notes(&log, "manual").map(|(r, a, _)| (r.seq, a)).collect();
    let manual_done: Vec<(u64, i64)> = notes(&log, "manual_done").map(|(r, a, _)| (r.seq, a)).collect();
    let in_manual = |seq: u64, kinds: &[i64]| -> bool {
        manual.iter().any(|(ms, k)| {
            kinds.contains(k) && *ms < seq && manual_done.iter().find(|(ds, dk)| dk == k && *ds > *ms).map(|(ds, _)| *ds > seq).unwrap_or(true)
        })
    };
    // arrival of caller i (the call, after readiness): (seq, us); first poll if it never got that far
    let arr: Vec<(u64, u64)> = rep
        .tasks
        .iter()
        .enumerate()
        .map(|(i, t)| notes(&log, "arrive").find(|(_, a, _)| *a == i as i64).map(|(r, _, _)| (r.seq, r.t_us)).unwrap_or((if s.inner_capacity.is_some() { 0 } else { t.first_poll_seq }, t.first_poll_us)))
        .collect();
    let mut open_episodes = 0;
    let mut half_open_contended = false;
    for (k, (s0, t0, _from, to)) in tr.iter().enumerate() {
        let next = tr.get(k + 1);
        let s1 = next.map(|x| x.0).unwrap_or(u64::MAX);
        let t1 = next.map(|x| x.1);
        if *to == 1 {
            open_episodes += 1;
            for c in calls.iter().filter(|c| c.svc == 0 && c.start_seq > *s0 && c.start_seq < s1) {
                world::violation(
                    "C03.no_inner_while_open",
                    "",
                    format!("breaker opened at {}us (wait {}us); inner call for request {} started at {}us while it was open", t0, wait, c.req, c.start_us),
                );
            }
            for (r, _, _) in notes(&log, "permitted") {
                if r.seq > *s0 && r.seq < s1 {
                    world::violation("C03.no_inner_while_open", "permitted_event", format!("CallPermitted emitted at {}us inside an open episode started {}us", r.t_us, t0));
                }
            }
            if let (Some(nx), Some(t1)) = (next, t1) {
                if t1 < t0.saturating_add(wait) {
                    let by_manual = nx.3 == 0 && in_manual(nx.0, &[2, 3]);
                    if !by_manual {
                        world::violation(
                            "C03.open_until_wait",
                            if nx.3 == 2 { "early_half_open" } else { "early_close" },
                            format!("breaker opened at {}us with wait {}us but left the open state for {} at {}us without a manual override", t0, wait, nx.3, t1),
                        );
                    }
                }
            }
            // callers arriving during the episode are answered at once
            for (i, t) in rep.tasks.iter().enumerate().take(n + 1) {
                let (a_seq, a_us) = arr[i];
                if a_seq > *s0 && a_seq < s1 && a_us < t0.saturating_add(wait) {
                    let still_open_after_instant = t1.map(|x| x > a_us).unwrap_or(true);
                    if !still_open_after_instant {
                        continue;
                    }
                    world::probe("arrival_while_open");
                    match t.status {
                        Status::Resolved => {
                            let o = t.out.as_ref().unwrap();
                            let fb = if s.callers.get(i).map(|c| c.via_plain).unwrap_or(false) { None } else { s.fallback_ms };
                            let good = match fb {
                                None => o.err == Some("OpenCircuit") && t.end_us == a_us,
                                Some(fl) => o.ok.as_ref().map(|r| r.svc == FB_SVC && r.req == i as u32).unwrap_or(false) && t.end_us == a_us + fl * 1000,
                            };
                            if !good && s.knobs.total_jump() == 0 {
                                world::violation(
                                    "C03.reject_at_once",
                                    if s.fallback_ms.is_some() { "fallback" } else { "plain" },
                                    format!("caller {} arrived at {}us while open (since {}us, wait {}us) and resolved at {}us with {:?}", i, a_us, t0, wait, t.end_us, o),
                                );
                            }
                        }
                        Status::Unresolved => world::violation("C03.reject_at_once", "never", format!("caller {} arriving while open never resolved", i)),
                        _ => {}
                    }
                }
            }
        }
        if *to == 2 {
            let trials: Vec<_> = calls.iter().filter(|c| c.svc == 0 && c.start_seq > *s0 && c.start_seq < s1).collect();
            let arrivals = arr.iter().take(n + 1).filter(|a| a.0 > *s0 && a.0 < s1).count();
            if arrivals + 1 >= 2 {
                half_open_contended = true;
                world::probe("several_arrivals_while_half_open");
            }
            // at every trial start: completed trials + trials still in flight < permitted
            // (a trial whose caller was dropped gives its slot back: cancellation is outside
            // the property's quantifier and must not strand the breaker)
            let over = trials.iter().any(|c| {
                let before = trials
                    .iter()
                    .filter(|d| {
                        // a caller cancelled before its outcome could be recorded gives the slot
                        // back, even if its inner call had just finished
                        let caller = rep.tasks.get(d.req as usize);
                        let cancelled_seq = caller.filter(|t| t.status == Status::Cancelled).map(|t| t.end_seq);
                        d.start_seq < c.start_seq
                            && match (d.how, cancelled_seq) {
                                (_, Some(cs)) => cs > c.start_seq && d.end_seq.map(|e| e > c.start_seq).unwrap_or(true),
                                (Some(crate::inner::EndHow::Ok), None) | (Some(crate::inner::EndHow::Err(_)), None) => true,
                                _ => d.end_seq.map(|e| e > c.start_seq).unwrap_or(true),
                            }
                    })
                    .count();
                before >= s.cfg.permitted as usize
            });
            if over {
                world::violation(
                    "C09.trials_le_permitted",
                    if s.cfg.time_based { "time_based" } else { "count_based" },
                    format!(
                        "half-open since {}us: {} trial calls reached the inner service (requests {:?}), permitted_calls_in_half_open={}",
                        t0,
                        trials.len(),
                        trials.iter().map(|c| c.req).collect::<Vec<_>>(),
                        s.cfg.permitted
                    ),
                );
            }
        }
    }
    // rejected callers never reach inner; fallback value is for the right request
    for (i, t) in rep.tasks.iter().enumerate().take(n + 1) {
        if let (Status::Resolved, Some(o)) = (t.status, t.out.as_ref()) {
            let mine = calls.iter().filter(|c| c.svc == 0 && c.req == i as u32).count();
            let rejected = o.err == Some("OpenCircuit") || o.ok.as_ref().map(|r| r.svc == FB_SVC).unwrap_or(false);
            if rejected && mine > 0 {
                world::violation("C03.reject_at_once", "rejected_reached_inner", format!("caller {} was rejected / served by the fallback but its request reached the inner service", i));
            }
            if let Some(r) = &o.ok {
                if r.req != i as u32 {
                    world::violation("C03.reject_at_once", "foreign_value", format!("caller {} got the response of request {}", i, r.req));
                }
            }
        }
    }
    // late probe: the breaker must not be stranded
    if s.probe {
        let t = &rep.tasks[n];
        if t.first_poll_seq > 0 {
            let stuck = crate::logq::in_flight_before(&calls, 0, t.first_poll_seq);
            let reached = calls.iter().any(|c| c.svc == 0 && c.req == n as u32);
            let open_for_ever = s.cfg.wait_ms == u64::MAX && tr.iter().filter(|x| x.0 < t.first_poll_seq).last().map(|x| x.3 == 1).unwrap_or(false);
            // (a history stretched by a slow wrapped service may have opened the breaker less than
            // the wait before the probe: being rejected is right then)
            let still_waiting = tr.iter().filter(|x| x.0 < t.first_poll_seq).last().map(|x| x.3 == 1 && t.first_poll_us <= x.1.saturating_add(wait)).unwrap_or(false);
            // "long after the last activity": a history stretched by a slow wrapped service can run
            // into the probe; the rule needs the breaker to have been left alone for the wait
            let last_activity = calls
                .iter()
                .filter(|c| c.req != n as u32)
                .filter_map(|c| c.end_us)
                .chain(tr.iter().map(|x| x.1))
                .chain(rep.tasks.iter().take(n).filter(|u| u.end_seq > 0).map(|u| u.end_us))
                .max()
                .unwrap_or(0);
            let quiet = t.first_poll_us > last_activity.saturating_add(wait.min(1_000_000));
            if stuck == 0 && !reached && !open_for_ever && !still_waiting && quiet {
                let st = tr.iter().filter(|x| x.0 < t.first_poll_seq).last().map(|x| x.3).unwrap_or(0);
                world::violation(
                    "C09.not_stranded",
                    if s.cfg.time_based { "time_based" } else { "count_based" },
                    format!("long after the last activity (state {} since {:?}us, nothing in flight) a probe call at {}us was not let through: {:?}", st, tr.last().map(|x| x.1), t.first_poll_us, t.out),
                );
            }
        }
    }
    let nontrivial = if prefix == "C03" { open_episodes > 0 } else { half_open_contended };
    let mut w = world::take();
    w.log = log;
    finish(w, ctx, &rep, prefix, nontrivial, outcome_summary(&rep))
}

pub struct C03;
pub struct C04;
pub struct C09;

fn cb_real() -> Vec<&'static str> {
    vec!["tower-resilience-circuitbreaker (CircuitBreaker, CircuitBreakerWithFallback, Circuit state machine, classifiers, listeners) with its logic clock on tokio's paused clock (hook)", "tokio::sync::Mutex"]
}

impl Prop for C04 {
    fn id(&self) -> &'static str {
        "C04"
    }
    fn gen(&self, rng: &mut Rng, _t: Tier) -> Value {
        serde_json::to_value(gen4(rng)).unwrap()
    }
    fn valid(&self, v: &Value) -> bool {
        parse::<Scn4>(v).map(|s| valid4(&s)).unwrap_or(false)
    }
    fn run(&self, v: &Value, ctx: &mut RunCtx) -> RunOutput {
        run4(&parse::<Scn4>(v).unwrap(), ctx)
    }
    fn runs(&self, t: Tier) -> u64 {
        match t {
            Tier::Quick => 20_000,
            Tier::Thorough => 4_000_000,
        }
    }
    fn nontrivial_rule(&self) -> &'static str {
        "scenario = breaker configuration from lattices (builder setters in a seeded order, classifier installed first or last, both window types, size 1..6 (10-100 with thresholds exactly on k/n in one run of eight), minimum below/equal/above the size, thresholds k/8 incl. 0 and 1, permitted 1..3, slow-call detection on/off, default/custom classifier) and a sequential history of 10-80 steps over {ok, error, classifier-exempt error, flagged ok, slow, advance, force_open, force_closed, reset, call through a sibling service of the same layer}, in one history of six with a call-permitted listener that blocks the thread for 3-60 ms (virtual time passes inside the poll; the blocked time is not part of the call); after every step the four state views and the admission are compared with a 32-variant family of the documented machine. Non-trivial: the breaker changed state at least twice. Distinct = distinct event-log digest."
    }
    fn real_components(&self) -> Vec<&'static str> {
        cb_real()
    }
    fn stub_components(&self) -> Vec<&'static str> {
        vec!["inner service (SimInner)"]
    }
    fn assumptions(&self) -> Vec<&'static str> {
        vec!["documented ambiguities are a family: minimum calls counted in the window or since the last transition; force_open while open may or may not restart the wait; ties (age == window duration, elapsed == wait) go either way", "latency never equals the slow-call threshold"]
    }
}

macro_rules! conc_prop {
    ($t:ident, $id:expr, $bias:expr, $rule:expr) => {
        impl Prop for $t {
            fn id(&self) -> &'static str {
                $id
            }
            fn engine(&self) -> &'static str {
                "asim + tsim (shuttle) + msim (Miri)"
            }
            fn supplement(&self, tier: Tier, seed: u64) -> (Vec<crate::world::Violation>, Value) {
                super::common::msim_supplement($id, "breaker", tier, seed)
            }
            fn gen(&self, rng: &mut Rng, _t: Tier) -> Value {
                // one run in eight drives the breaker from several threads (engine B)
                if rng.chance(1, 8) {
                    return serde_json::to_value(super::svcthreads::gen_cb(rng)).unwrap();
                }
                serde_json::to_value(gen3(rng, $bias)).unwrap()
            }
            fn valid(&self, v: &Value) -> bool {
                if super::svcthreads::is_threads(v) {
                    return super::svcthreads::valid_json(v) && matches!(parse::<super::svcthreads::ScnT>(v).map(|s| s.kind), Some(super::svcthreads::Kind::Breaker { .. }));
                }
                parse::<Scn3>(v).map(|s| valid3(&s)).unwrap_or(false)
            }
            fn run(&self, v: &Value, ctx: &mut RunCtx) -> RunOutput {
                if super::svcthreads::is_threads(v) {
                    return super::svcthreads::run_json(v, ctx, $id);
                }
                run3(&parse::<Scn3>(v).unwrap(), ctx, $id)
            }
            fn runs(&self, t: Tier) -> u64 {
                match t {
                    Tier::Quick => 20_000,
                    Tier::Thorough => 8_000_000,
                }
            }
            fn nontrivial_rule(&self) -> &'static str {
                $rule
            }
            fn real_components(&self) -> Vec<&'static str> {
                cb_real()
            }
            fn stub_components(&self) -> Vec<&'static str> {
                vec!["inner service (SimInner)", "fallback closure (serial-stamped value per request)", "state-transition / permitted / rejected listeners (log only)"]
            }
            fn assumptions(&self) -> Vec<&'static str> {
                vec!["'observed open' = transition announced to listeners, cross-checked with state_sync()/is_open() after every scheduler step", "calls admitted before the breaker opened may finish"]
            }
        }
    };
}

conc_prop!(C03, "C03", false, "scenario = small breaker configuration, 3-10 callers on clones (plain, with_fallback, or a plain clone taken before with_fallback), a failing/slow first wave, later bursts around the open episode, optional force_open / force_closed / reset tasks, cancels, clock jumps, late probe. In one run of six the wrapped service has a capacity (its readiness waits for a free slot, like tower's ConcurrencyLimit). One run in eight is a thread scenario (engine B): 2-4 shuttle threads drive clones of the real service with a no-op waker; every acquisition of a library lock, every operation on a library atomic and every verif::yield_async site is a scheduling point of the seeded thread scheduler; the clock is a paused tokio clock moved by Advance operations. Non-trivial: the breaker was open at least once. Distinct = distinct event-log digest.");
conc_prop!(C09, "C09", true, "same harness as C03 biased to bursts at and after wait_duration_in_open with trial latencies 0-50ms. In one run of six the wrapped service has a capacity (its readiness waits for a free slot, like tower's ConcurrencyLimit). One run in eight is a thread scenario (engine B): 2-4 shuttle threads drive clones of the real service with a no-op waker; every acquisition of a library lock, every operation on a library atomic and every verif::yield_async site is a scheduling point of the seeded thread scheduler; the clock is a paused tokio clock moved by Advance operations. Non-trivial: at least two callers competed while the breaker was half-open. Distinct = distinct event-log digest.");
