//! C13 (service part, engine A): the adaptive limiter's in-flight count is exact and readiness
//! follows capacity, under errors, panics, cancellation and never-completing calls.
//! The limit-in-bounds part under thread interleavings lives in `threads.rs` (engine B).

use super::common::*;
use crate::driver::{RunCtx, RunOutput};
use crate::exec::{run_sim, Hooks, LocalFut, Out, Status, TaskDef};
use crate::inner::{Behaviour, Outcome, Req, SimErr, SimInner};
use crate::logq::{inner_calls, notes};
use crate::rng::Rng;
use crate::world;
use serde::{Deserialize, Serialize};
use std::time::Duration;
use tower::{Layer, Service};
use tower_resilience_adaptive::{AdaptiveError, AdaptiveLimiterLayer, Aimd, Algorithm, Vegas};

#[derive(Clone, Debug, Serialize, Deserialize, PartialEq)]
pub struct Caller {
    pub start_ms: u64,
    pub beh: Behaviour,
    pub cancel: CancelSpec,
    /// obtain the call future and drop it without ever polling it
    #[serde(default)]
    pub drop_unpolled: bool,
    /// which of the two services built from the one layer (they share the algorithm, not the
    /// in-flight counter)
    #[serde(default)]
    pub via: u8,
    /// after the handle has answered Ready, do nothing for this long, then ask it again before
    /// calling (0 = call at once)
    #[serde(default)]
    pub recheck_after_ms: u64,
    /// keep the resolved call future alive this long before dropping it
    #[serde(default)]
    pub hold_finished_ms: u64,
}

#[derive(Clone, Debug, Serialize, Deserialize, PartialEq)]
pub struct Scn {
    pub vegas: bool,
    pub min: u32,
    pub initial: u32,
    pub max: u32,
    pub increase: u32,
    pub factor_eighths: u32,
    pub lat_threshold_ms: u64,
    pub alpha: u32,
    pub beta: u32,
    pub callers: Vec<Caller>,
    pub knobs: SchedKnobs,
    /// the wrapped service takes only this many calls at a time (readiness waits for a slot)
    #[serde(default)]
    pub inner_capacity: Option<u32>,
}

pub fn gen(rng: &mut Rng) -> Scn {
    let min = rng.range(1, 2) as u32;
    let max = min + rng.range(0, 3) as u32;
    let initial = rng.range(min as u64, max as u64) as u32;
    // u32::MAX stands for usize::MAX: "no upper bound", starting wide open
    let (initial, max) = if rng.chance(1, 12) { (if rng.chance(1, 2) { u32::MAX } else { initial }, u32::MAX) } else { (initial, max) };
    let n = rng.range(2, 10) as usize;
    let faulty = rng.chance(2, 3);
    let two = rng.chance(1, 3);
    let mut callers = vec![];
    for _ in 0..n {
        let start_ms = *rng.pick(&[0u64, 0, 0, 1, 5, 5, 10, 10, 20, 30, 50]);
        callers.push(Caller {
            start_ms,
            beh: if faulty { gen_behaviour(rng, &[0, 5, 10, 10, 20, 30, 60], 20, 8, 4) } else { gen_behaviour(rng, &[0, 5, 10, 10, 20, 30, 60], 15, 0, 0) },
            cancel: if faulty { gen_cancel(rng, start_ms, 25) } else { CancelSpec::Never },
            drop_unpolled: faulty && rng.chance(1, 10),
            via: if two { rng.below(2) as u8 } else { 0 },
            recheck_after_ms: if rng.chance(1, 6) { *rng.pick(&[1u64, 5, 10, 20]) } else { 0 },
            hold_finished_ms: if rng.chance(1, 8) { *rng.pick(&[5u64, 20, 60]) } else { 0 },
        });
    }
    Scn {
        vegas: rng.chance(1, 3),
        min,
        initial,
        max,
        increase: rng.range(1, 2) as u32,
        factor_eighths: *rng.pick(&[0u32, 4, 6, 8]),
        lat_threshold_ms: *rng.pick(&[15u64, 25, 100]),
        alpha: rng.range(1, 3) as u32,
        beta: rng.range(3, 6) as u32,
        callers,
        knobs: SchedKnobs::gen(rng, false, 60),
        inner_capacity: if rng.chance(1, 5) { Some(rng.range(1, 2) as u32) } else { None },
    }
}

pub fn valid(s: &Scn) -> bool {
    s.min >= 1
        && s.min <= s.max
        && (s.max <= 8 || s.max == u32::MAX)
        && s.initial >= s.min
        && s.initial <= s.max
        && (s.initial <= 8 || s.initial == u32::MAX)
        && s.increase >= 1
        && s.increase <= 4
        && s.factor_eighths <= 8
        && s.lat_threshold_ms >= 1
        && s.lat_threshold_ms <= 500
        && s.alpha >= 1
        && s.alpha <= s.beta
        && s.beta <= 10
        && !s.callers.is_empty()
        && s.callers.len() <= 12
        && s.callers.iter().all(|c| c.start_ms <= 300 && c.beh.lat_ms <= 200 && c.beh.yields <= 4 && c.via <= 1 && c.recheck_after_ms <= 50 && c.hold_finished_ms <= 100)
        && s.knobs.jumps.is_empty()
        && s.inner_capacity.map(|c| c >= 1 && c <= 4).unwrap_or(true)
}

const PROBE_AT: u64 = 2000;

pub fn run(s: &Scn, ctx: &mut RunCtx) -> RunOutput {
    world::reset();
    let mut cfg = s.knobs.cfg(ctx, PROBE_AT + 1000, 0);
    // callers busy-polling readiness behind a never-completing call cost one step per ms each
    cfg.max_steps = 60_000;
    let scn = s.clone();
    let n = s.callers.len();
    type Svc = tower_resilience_adaptive::AdaptiveService<SimInner, Algorithm>;
    let handle: std::rc::Rc<std::cell::RefCell<Option<(Svc, Svc)>>> = Default::default();
    let h2 = handle.clone();
    let setup = move || {
        world::with(|w| {
            for (i, c) in scn.callers.iter().enumerate() {
                w.script.by_req.insert((0, i as u32), vec![c.beh]);
                w.script.by_req.insert((1, i as u32), vec![c.beh]);
            }
            if let Some(c) = scn.inner_capacity {
                w.script.capacity.insert(0, c as i64);
                w.script.capacity.insert(1, c as i64);
            }
        });
        let alg = if scn.vegas {
            Algorithm::Vegas(Vegas::builder().initial_limit(count(scn.initial)).min_limit(scn.min as usize).max_limit(count(scn.max)).alpha(scn.alpha as usize).beta(scn.beta as usize).build())
        } else {
            Algorithm::Aimd(
                Aimd::builder()
                    .initial_limit(count(scn.initial))
                    .min_limit(scn.min as usize)
                    .max_limit(count(scn.max))
                    .increase_by(scn.increase as usize)
                    .decrease_factor(scn.factor_eighths as f64 / 8.0)
                    .latency_threshold(Duration::from_millis(scn.lat_threshold_ms))
                    .build(),
            )
        };
        let layer = AdaptiveLimiterLayer::new(alg);
        let Some((base, base_b)): Option<(Svc, Svc)> = build_guarded("C13.ready_iff_capacity", &format!("an adaptive limiter with initial_limit={} max_limit={}", count(scn.initial), count(scn.max)), || (layer.layer(SimInner::new(0)), layer.layer(SimInner::new(1)))) else {
            return vec![];
        };
        *h2.borrow_mut() = Some((base.clone(), base_b.clone()));
        let mut defs = vec![];
        for i in 0..=n {
            let (start_ms, cancel) = if i < n { (scn.callers[i].start_ms, scn.callers[i].cancel.to_cancel()) } else { (PROBE_AT, crate::exec::Cancel::Never) };
            let via = if i < n { scn.callers[i].via } else { 0 };
            let svc = if via == 0 { base.clone() } else { base_b.clone() };
            let drop_unpolled = i < n && scn.callers[i].drop_unpolled;
            let recheck = if i < n { scn.callers[i].recheck_after_ms } else { 0 };
            let hold_finished = if i < n { scn.callers[i].hold_finished_ms } else { 0 };
            let make: Box<dyn FnOnce() -> LocalFut> = Box::new(move || {
                Box::pin(async move {
                    let mut svc = svc;
                    // readiness polled by hand so that every answer can be compared with capacity
                    let mut r = Ok(());
                    for round in 0..2 {
                        r = std::future::poll_fn(|cx| {
                            let true_inflight = world::with(|w| w.in_flight[via as usize]);
                            let limit = i64::try_from(svc.limit()).unwrap_or(i64::MAX);
                            let r = svc.poll_ready(cx);
                            // a Pending that comes from the wrapped service (no free slot there) is not the limiter's
                            let inner_full = world::with(|w| w.script.capacity.get(&via).map(|c| w.in_flight[via as usize] + w.reserved[via as usize] >= *c).unwrap_or(false));
                            world::note(if r.is_pending() && inner_full { "ready_pending_inner" } else if r.is_pending() { "ready_pending" } else { "ready_ok" }, true_inflight, limit);
                            r
                        })
                        .await;
                        if round == 0 && recheck > 0 && r.is_ok() {
                            world::fault("ready_then_wait_then_recheck");
                            tokio::time::sleep(Duration::from_millis(recheck)).await;
                        } else {
                            break;
                        }
                    }
                    let r: Result<_, AdaptiveError<SimErr>> = match r {
                        Err(e) => Err(e),
                        Ok(()) => {
                            let f = svc.call(Req { id: i as u32, key: 0 });
                            if drop_unpolled {
                                world::fault("drop_unpolled");
                                drop(f);
                                return Out::err("DroppedUnpolled", None);
                            }
                            let mut f = Box::pin(f);
                            let r = f.as_mut().await;
                            if hold_finished > 0 {
                                world::fault("hold_finished_future");
                                tokio::time::sleep(Duration::from_millis(hold_finished)).await;
                            }
                            drop(f);
                            r
                        }
                    };
                    match r {
                        Ok(x) => Out::ok(x),
                        Err(AdaptiveError::Service(e)) => Out::err("Service", Some(e)),
                        Err(_) => Out::err("LimitReached", None),
                    }
                })
            });
            defs.push(TaskDef { start_ms, make, cancel });
        }
        defs
    };
    let (min, max) = (s.min as usize, count(s.max));
    let mut step = |_k| {
        if let Some((ha, hb)) = handle.borrow().as_ref() {
            for (k, h) in [ha, hb].iter().enumerate() {
                let reported = h.in_flight() as i64;
                let truth = world::with(|w| w.in_flight[k]);
                if reported != truth {
                    world::violation(
                        "C13.in_flight_exact",
                        if reported > truth { "leak" } else { "undercount" },
                        format!("t={}us: in_flight() of service {} reports {} but {} calls are actually inside its inner service", world::now_us(), k, reported, truth),
                    );
                }
            }
            let h = ha;
            let l = h.limit();
            if l < min || l > max {
                world::violation("C13.limit_in_bounds", "service", format!("limit() = {} outside [{}, {}]", l, min, max));
            }
        }
    };
    let mut idle = || {};
    let rep = run_sim(cfg, &mut ctx.chooser, setup, Hooks { step: &mut step, idle: &mut idle });
    drop(handle);
    let log = world::with(|w| std::mem::take(&mut w.log));
    let calls = inner_calls(&log);
    for (r, inflight, limit) in notes(&log, "ready_pending") {
        if inflight < limit {
            world::violation("C13.ready_iff_capacity", "refused_with_capacity", format!("t={}us task {}: poll_ready returned Pending with {} calls in flight and limit {}", r.t_us, r.task, inflight, limit));
            break;
        }
        world::probe("pending_at_capacity");
    }
    for (r, inflight, limit) in notes(&log, "ready_ok") {
        if inflight >= limit {
            world::violation("C13.ready_iff_capacity", "admitted_over_limit", format!("t={}us task {}: poll_ready returned Ready with {} calls in flight and limit {}", r.t_us, r.task, inflight, limit));
            break;
        }
    }
    let mut had_fault = false;
    for (i, t) in rep.tasks.iter().enumerate() {
        match t.status {
            Status::Resolved if t.out.as_ref().and_then(|o| o.err) == Some("DroppedUnpolled") => {
                had_fault = true;
            }
            Status::Cancelled => {
                had_fault = true;
                if calls.iter().any(|c| c.req == i as u32) {
                    world::probe("cancel_while_running");
                }
            }
            Status::Panicked => {
                had_fault = true;
                if i >= n || !matches!(s.callers[i].beh.out, Outcome::Panic | Outcome::PanicInCall) {
                    world::violation("C13.in_flight_exact", "panic", format!("caller {} panicked: {:?}", i, t.panic_msg));
                }
            }
            Status::Unresolved if rep.step_limit => {
                world::probe("step_limit_reached");
            }
            Status::Unresolved => {
                // allowed only if blocked behind never-completing calls, or its own call never completes
                let my_svc = if i < n { s.callers[i].via } else { 0 };
                let stuck = calls.iter().filter(|c| c.svc == my_svc && c.end_seq.is_none()).count();
                let own_never = i < n && s.callers[i].beh.out == Outcome::Never && calls.iter().any(|c| c.req == i as u32);
                // (a wrapped service whose few slots are all taken by never-completing calls blocks too)
                let inner_blocked = s.inner_capacity.map(|c| stuck >= c as usize).unwrap_or(false);
                if !own_never && stuck < s.min as usize && !inner_blocked {
                    world::violation("C13.ready_iff_capacity", "probe_never_ready", format!("caller {} never became ready although only {} calls are still running (min_limit {})", i, stuck, s.min));
                }
            }
            _ => {}
        }
    }
    let mut w = world::take();
    w.log = log;
    finish(w, ctx, &rep, "C13", had_fault, outcome_summary(&rep))
}
