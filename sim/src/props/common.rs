//! Shared pieces of scenarios and helpers used by several properties.

use crate::driver::{RunCtx, RunOutput};
use crate::exec::{Cancel, SimCfg, SimReport, Status};
use crate::inner::{Behaviour, Outcome};
use crate::rng::Rng;
use crate::world::{self, World};
use serde::{Deserialize, Serialize};
use serde_json::{json, Value};

#[derive(Clone, Copy, Debug, Serialize, Deserialize, PartialEq, Eq)]
pub enum CancelSpec {
    Never,
    AfterPolls(u32),
    AtMs(u64),
}

impl CancelSpec {
    pub fn to_cancel(self) -> Cancel {
        match self {
            CancelSpec::Never => Cancel::Never,
            CancelSpec::AfterPolls(n) => Cancel::AfterPolls(n.max(1)),
            CancelSpec::AtMs(t) => Cancel::AtMs(t),
        }
    }
}

/// Scheduler knobs drawn per run (swarm style).
#[derive(Clone, Debug, Serialize, Deserialize, PartialEq)]
pub struct SchedKnobs {
    pub strategy: u8,
    pub yield_every: u32,
    pub jumps: Vec<(u64, u64)>,
    /// (task selector, polls): hand that task's future to another waker after so many polls
    #[serde(default)]
    pub migrate: Option<(u32, u32)>,
}

impl SchedKnobs {
    pub fn gen(rng: &mut Rng, allow_jumps: bool, span_ms: u64) -> Self {
        let strategy = *rng.pick(&[0u8, 0, 0, 1, 1, 2, 3]);
        let yield_every = *rng.pick(&[0u32, 0, 1, 2, 4]);
        let mut jumps = vec![];
        if allow_jumps && rng.chance(1, 6) {
            let n = rng.range(1, 2);
            for _ in 0..n {
                let at = rng.below(span_ms.max(1));
                let by = *rng.pick(&[1u64, 5, 10, 20, 50, 100]);
                jumps.push((at, by));
            }
            jumps.sort();
        }
        let migrate = if rng.chance(1, 6) { Some((rng.below(12) as u32, rng.range(1, 3) as u32)) } else { None };
        SchedKnobs {
            strategy,
            yield_every,
            jumps,
            migrate,
        }
    }
    pub fn cfg(&self, ctx: &RunCtx, horizon_ms: u64, tail_ms: u64) -> SimCfg {
        SimCfg {
            horizon_ms,
            tail_ms,
            max_steps: 6000,
            strategy: self.strategy % 4,
            yield_every: self.yield_every.min(8),
            jumps: self.jumps.clone(),
            rt_seed: ctx.rt_seed,
            migrate: self.migrate.map(|(a, b)| (a % 64, b.clamp(1, 8))),
        }
    }
    pub fn total_jump(&self) -> u64 {
        self.jumps.iter().map(|j| j.1).sum()
    }
}

pub fn gen_behaviour(rng: &mut Rng, lats: &[u64], p_err: u64, p_panic: u64, p_never: u64) -> Behaviour {
    let lat_ms = *rng.pick(lats);
    let r = rng.below(100);
    let out = if r < p_err {
        Outcome::Err(rng.below(2) as u8)
    } else if r < p_err + p_panic {
        if rng.chance(1, 3) {
            Outcome::PanicInCall
        } else {
            Outcome::Panic
        }
    } else if r < p_err + p_panic + p_never {
        Outcome::Never
    } else {
        Outcome::Ok
    };
    let yields = *rng.pick(&[0u8, 0, 0, 1, 2, 3]);
    Behaviour { lat_ms, out, yields }
}

pub fn gen_cancel(rng: &mut Rng, start_ms: u64, p: u64) -> CancelSpec {
    if rng.below(100) < p {
        if rng.chance(1, 2) {
            CancelSpec::AfterPolls(rng.range(1, 3) as u32)
        } else {
            CancelSpec::AtMs(start_ms + *rng.pick(&[0u64, 1, 5, 10, 15, 20, 30]))
        }
    } else {
        CancelSpec::Never
    }
}

/// Collect the run output from the world after a simulation.
pub fn finish(
    w: World,
    ctx: &RunCtx,
    rep: &SimReport,
    prefix: &str,
    nontrivial: bool,
    summary: Value,
) -> RunOutput {
    if std::env::var("TRSIM_DUMP").is_ok() {
        for r in &w.log {
            eprintln!("{:>5} t={:>9} task={:>3} step={:>4} {:?}", r.seq, r.t_us, r.task, r.step, r.ev);
        }
    }
    let mut violations: Vec<_> = w
        .violations
        .iter()
        .filter(|v| v.rule.starts_with(prefix))
        .cloned()
        .collect();
    violations.sort();
    violations.dedup_by(|a, b| a.rule == b.rule && a.class == b.class);
    let mut probes = w.probes.clone();
    if rep.step_limit {
        *probes.entry("step_limit_reached").or_insert(0) += 1;
    }
    RunOutput {
        violations,
        faults: w.faults.clone(),
        probes,
        steps: rep.steps as u64,
        vtime_us: rep.end_us,
        nontrivial,
        digest: world::digest(&w.log),
        trace: ctx.chooser.trace.clone(),
        diverged: ctx.chooser.diverged,
        summary,
    }
}

pub fn outcome_summary(rep: &SimReport) -> Value {
    let v: Vec<Value> = rep
        .tasks
        .iter()
        .enumerate()
        .map(|(i, t)| {
            let st = match t.status {
                Status::Resolved => match &t.out {
                    Some(o) => match (&o.ok, o.err) {
                        (Some(r), _) => format!("ok(serial {})", r.serial),
                        (None, Some(e)) => format!("err({})", e),
                        _ => "done".to_string(),
                    },
                    None => "done".into(),
                },
                Status::Cancelled => "cancelled".into(),
                Status::Panicked => "panicked".into(),
                Status::Unresolved => "unresolved".into(),
                Status::Unstarted => "unstarted".into(),
                Status::Running => "running".into(),
            };
            json!({"task": i, "first_poll_ms": t.first_poll_us/1000, "end_ms": t.end_us/1000, "result": st})
        })
        .collect();
    Value::Array(v)
}

pub fn parse<T: serde::de::DeserializeOwned>(v: &Value) -> Option<T> {
    serde_json::from_value(v.clone()).ok()
}

/// Key with a deliberately coarse `Hash` (keys collide pairwise) and an exact `Eq`: legal, and an
/// implementation that identifies keys by their hash alone mixes different keys up.
#[derive(Clone, Debug, PartialEq, Eq)]
pub struct CKey(pub u32);
impl std::hash::Hash for CKey {
    fn hash<H: std::hash::Hasher>(&self, state: &mut H) {
        (self.0 % 2).hash(state)
    }
}

/// Builds (part of) the system under test. A panic while building means that a legal
/// configuration cannot even be constructed: reported under `rule`, class `construction_panic`.
pub fn build_guarded<T>(rule: &'static str, what: &str, f: impl FnOnce() -> T) -> Option<T> {
    match std::panic::catch_unwind(std::panic::AssertUnwindSafe(f)) {
        Ok(t) => Some(t),
        Err(p) => {
            let msg = if let Some(s) = p.downcast_ref::<&str>() {
                s.to_string()
            } else if let Some(s) = p.downcast_ref::<String>() {
                s.clone()
            } else {
                "non-string panic".to_string()
            };
            world::violation(rule, "construction_panic", format!("building {} panicked: {}", what, msg));
            None
        }
    }
}

thread_local! {
    /// a second tokio runtime that is never driven: a service may be *built* while its context
    /// is entered (application start-up code) and *used* on the simulated runtime
    pub static FOREIGN_RT: std::cell::RefCell<Option<tokio::runtime::Runtime>> = const { std::cell::RefCell::new(None) };
}

/// Runs `f` inside the context of the foreign runtime (created on first use, dropped by
/// `drop_foreign_runtime` after the run).
pub fn built_in_foreign_runtime<T>(f: impl FnOnce() -> T) -> T {
    FOREIGN_RT.with(|r| {
        let mut g = r.borrow_mut();
        let rt = g.get_or_insert_with(|| tokio::runtime::Builder::new_current_thread().enable_time().build().expect("runtime"));
        let _e = rt.enter();
        world::fault("built_in_another_runtime");
        f()
    })
}

pub fn drop_foreign_runtime() {
    let rt = FOREIGN_RT.with(|r| r.borrow_mut().take());
    if let Some(rt) = rt {
        // outside any async context: shutting a runtime down from within one panics
        std::thread::scope(|s| {
            s.spawn(move || drop(rt));
        });
    }
}

/// u32::MAX in a scenario stands for usize::MAX ("no limit" written as a count)
pub fn count(n: u32) -> usize {
    if n == u32::MAX {
        usize::MAX
    } else {
        n as usize
    }
}

/// Engine C (DESIGN 15.16): the same service on real OS threads, executed by Miri, whose seeded
/// scheduler can preempt a thread between any two statements. Runs `/verif/bin/msim` and turns its
/// answer into a supplement for the property's check (violations keep their own replay file).
pub fn msim_supplement(prop: &str, scenario: &str, tier: crate::driver::Tier, seed: u64) -> (Vec<world::Violation>, Value) {
    if std::env::var_os("TRSIM_NO_MSIM").is_some() {
        return (vec![], json!({"engine_c": "skipped (TRSIM_NO_MSIM)"}));
    }
    let verif = std::env::var("VERIF_DIR").unwrap_or_else(|_| "/verif".to_string());
    let n: u64 = prop.trim_start_matches('C').parse().unwrap_or(0);
    let (workloads, mseeds) = match tier {
        crate::driver::Tier::Quick => (24u64, 12u64),
        crate::driver::Tier::Thorough => (256, 16),
    };
    // workload seeds depend on VERIF_SEED and the property, Miri seeds are 0..mseeds
    let w0 = (seed % 1_000_000) * 1000 + n * 50;
    let out = std::process::Command::new(format!("{}/bin/msim", verif))
        .arg(scenario)
        .arg("--wseeds")
        .arg(format!("{}..{}", w0, w0 + workloads))
        .arg("--mseeds")
        .arg(format!("0..{}", mseeds))
        .arg("--rate")
        .arg("0.05,0.2,0.01")
        .arg("--property")
        .arg(prop)
        .output();
    let out = match out {
        Ok(o) => o,
        Err(e) => return (vec![world::Violation { rule: format!("{}.engine_c_harness", prop), class: "msim".into(), msg: format!("cannot run bin/msim: {}", e) }], Value::Null),
    };
    let text = String::from_utf8_lossy(&out.stdout).to_string();
    let last = text.lines().filter(|l| l.starts_with('{')).last().unwrap_or("{}");
    let j: Value = serde_json::from_str(last).unwrap_or(Value::Null);
    match j["status"].as_str() {
        Some("held") => (vec![], j),
        Some("violation") => {
            let full = j["rule"].as_str().unwrap_or("msim.unknown").to_string();
            let (rule, class) = match full.split_once(" [") {
                Some((r, c)) => (r.to_string(), c.trim_end_matches(']').to_string()),
                None => (full.clone(), "os_threads".to_string()),
            };
            // a rule of the sister property (C01 vs C07 share a scenario) is reported under this check's id
            let rule = if rule.starts_with('C') && !rule.starts_with(prop) { format!("{}.sister_{}", prop, rule.replace('.', "_")) } else if rule.starts_with("miri.") { format!("{}.{}", prop, rule.replace('.', "_")) } else { rule };
            let msg = format!("{} (engine C: workload seed {}, Miri seed {}, preemption rate {}) msim_replay={}", j["what"].as_str().unwrap_or(""), j["wseed"], j["mseed"], j["rate"].as_str().unwrap_or(""), j["replay"].as_str().unwrap_or(""));
            (vec![world::Violation { rule, class, msg }], j)
        }
        _ => {
            // a harness error of engine C must not pass silently and is not a violation either
            println!("HARNESS-ERROR property={} engine C: {}", prop, j["what"].as_str().unwrap_or(&String::from_utf8_lossy(&out.stderr)));
            (vec![], json!({"engine_c": "error", "detail": j}))
        }
    }
}
