//! C01 (never more than max_concurrent_calls inside) and C07 (capacity never lost, rejection
//! only by timeout) on the real `Bulkhead` service.

use super::common::*;
use crate::driver::{Prop, RunCtx, RunOutput, Tier};
use crate::exec::{run_sim, Hooks, LocalFut, Out, Status, TaskDef};
use crate::inner::{Behaviour, Outcome, Req, SimInner, SimPanic};
use crate::logq::{in_flight_before, inner_calls};
use crate::rng::Rng;
use crate::world::{self, Ev};
use serde::{Deserialize, Serialize};
use serde_json::{json, Value};
use std::time::Duration;
use tower::{Layer, Service, ServiceExt};
use tower_resilience_bulkhead::{BulkheadError, BulkheadLayer, BulkheadServiceError};

#[derive(Clone, Debug, Serialize, Deserialize, PartialEq)]
pub struct Caller {
    pub start_ms: u64,
    pub beh: Behaviour,
    pub cancel: CancelSpec,
    pub drop_unpolled: bool,
    pub depth: u8,
    /// keep the call future unpolled for this long before awaiting it
    #[serde(default)]
    pub hold_unpolled_ms: u64,
    /// which of the services built from the one layer this caller uses (0 or 1)
    #[serde(default)]
    pub svc: u8,
    /// 0 = a clone made before any call, 1 = the one shared handle itself, 2 = a clone of the
    /// shared handle made when this caller arrives (1 and 2 only in shared-handle scenarios)
    #[serde(default)]
    pub handle: u8,
    /// keep the resolved call future alive (polled by reference) this long before dropping it:
    /// the call is over when it resolves, not when its future object goes away
    #[serde(default)]
    pub hold_finished_ms: u64,
}

#[derive(Clone, Debug, Serialize, Deserialize, PartialEq)]
pub struct Scn {
    pub max: u32,
    pub max_wait: Option<u64>,
    pub callers: Vec<Caller>,
    pub probes: u32,
    pub probe_at: u64,
    pub listener_panic: bool,
    pub knobs: SchedKnobs,
    /// a second service built from the same layer (own inner service, must have its own slots)
    #[serde(default)]
    pub two_services: bool,
    /// callers use one never-cloned handle (or clone it only when they arrive)
    #[serde(default)]
    pub shared_handle: bool,
    /// redundant builder calls made before the final settings (the last setter wins):
    /// 0 none, 1 reject_when_full(), 2 preset small(), 3 max_wait_duration(3ms), 4 max_concurrent_calls(max+2)
    #[serde(default)]
    pub pre: u8,
    /// final max_wait_duration set before (true) or after max_concurrent_calls
    #[serde(default)]
    pub wait_first: bool,
    /// the wrapped service takes only this many calls at a time: a caller may have to wait for
    /// its readiness before it can call (arrival = the call, after readiness)
    #[serde(default)]
    pub inner_capacity: Option<u32>,
    /// the bulkhead under test sits inside another, far wider bulkhead with the same (default)
    /// name: two bulkheads are two bulkheads, whatever they are called
    #[serde(default)]
    pub nested: bool,
    /// another, wider bulkhead with the same explicit name is built first and stays alive (never
    /// used): a name is a label for events and metrics, not an identity
    #[serde(default)]
    pub decoy_namesake: bool,
    /// callers whose inner call sends another request back through the same bulkhead and awaits
    /// it inside its own future (a handler that calls the client it sits behind). Only with a
    /// finite max_wait: the nested request gives up after that long if it gets no slot, and the
    /// outer call goes on (without one this would be a deadlock of the caller's own making)
    #[serde(default)]
    pub reentrant: Vec<u32>,
}

thread_local! {
    /// keeps the decoy bulkhead of a run alive until the run is over
    static NAMESAKE: std::cell::RefCell<Option<Box<dyn std::any::Any>>> = const { std::cell::RefCell::new(None) };
}

const PROBE_LAT: u64 = 20;
/// very long (but finite) waits: an hour, a year, three years (beyond the ~2.2 years that one
/// tokio timer can span)
const LONG_WAITS: [u64; 3] = [3_600_000, 31_536_000_000, 94_608_000_000];

/// A long history on one bulkhead (anything an implementation does "every n-th call" or "after n
/// rejections in a row" needs one): the slots are held for a long time, 70-130 callers arrive one
/// after the other and time out, then the holders are cancelled (or finish) and the probe burst
/// must find the full capacity.
fn gen_many_callers(rng: &mut Rng) -> Scn {
    let max = rng.range(1, 2) as u32;
    let wait = *rng.pick(&[2u64, 5]);
    let mk = |start_ms: u64, out: Outcome, lat_ms: u64, cancel: CancelSpec| Caller {
        start_ms,
        beh: Behaviour { lat_ms, out, yields: 0 },
        cancel,
        drop_unpolled: false,
        depth: 0,
        hold_unpolled_ms: 0,
        svc: 0,
        handle: 0,
        hold_finished_ms: 0,
    };
    let mut callers = vec![];
    let holders_cancelled = rng.chance(1, 2);
    for _ in 0..max {
        if holders_cancelled {
            callers.push(mk(0, Outcome::Never, 0, CancelSpec::AtMs(700)));
        } else {
            callers.push(mk(0, Outcome::Ok, 200, CancelSpec::Never));
        }
    }
    let n = rng.range(70, 130);
    for i in 0..n {
        callers.push(mk(1 + i, Outcome::Ok, 1, CancelSpec::Never));
    }
    Scn {
        reentrant: vec![],
        nested: false,
        decoy_namesake: false,
        inner_capacity: None,
        two_services: false,
        shared_handle: false,
        pre: 0,
        wait_first: rng.chance(1, 2),
        max,
        max_wait: Some(wait),
        callers,
        probes: max + 1,
        probe_at: 1000,
        listener_panic: false,
        knobs: SchedKnobs::gen(rng, false, 60),
    }
}

/// Holders that never finish and waiters with a very long max_wait: each waiter must still be
/// rejected exactly max_wait after it arrived.
fn gen_long_wait(rng: &mut Rng, max: u32) -> Scn {
    let mut callers = vec![];
    let mk = |start_ms: u64, out: Outcome, lat_ms: u64| Caller {
        start_ms,
        beh: Behaviour { lat_ms, out, yields: 0 },
        cancel: CancelSpec::Never,
        drop_unpolled: false,
        depth: 0,
        hold_unpolled_ms: 0,
        svc: 0,
        handle: 0,
        hold_finished_ms: 0,
    };
    for _ in 0..max {
        callers.push(mk(0, Outcome::Never, 0));
    }
    for _ in 0..rng.range(1, 3) {
        callers.push(mk(*rng.pick(&[1u64, 5, 40]), Outcome::Ok, 5));
    }
    Scn {
        reentrant: vec![],
        nested: false,
        decoy_namesake: false,
        inner_capacity: None,
        two_services: false,
        shared_handle: false,
        pre: 0,
        wait_first: rng.chance(1, 2),
        max,
        max_wait: Some(*rng.pick(&LONG_WAITS)),
        callers,
        probes: 0,
        probe_at: 1000,
        listener_panic: false,
        knobs: SchedKnobs::gen(rng, false, 60),
    }
}

pub fn gen(rng: &mut Rng) -> Scn {
    // u32::MAX stands for usize::MAX ("no limit" written as a number of calls)
    let max = if rng.chance(1, 12) {
        u32::MAX
    } else if rng.chance(1, 14) {
        // a bulkhead that admits nobody (maintenance switch): everybody waits, then times out
        0
    } else {
        rng.range(1, 4) as u32
    };
    // u64::MAX stands for Duration::MAX ("wait for ever", written as a finite setting)
    let max_wait = *rng.pick(&[None, None, Some(0u64), Some(0), Some(5), Some(10), Some(10), Some(25), Some(25), Some(u64::MAX)]);
    if rng.chance(1, 40) {
        return gen_long_wait(rng, max.clamp(1, 4));
    }
    if rng.chance(1, 40) {
        return gen_many_callers(rng);
    }
    let n = rng.range(2, 12) as usize;
    let faulty = rng.chance(2, 3);
    let starts = [0u64, 0, 0, 1, 5, 5, 10, 10, 15, 20, 25, 30, 40];
    let lats = [0u64, 5, 5, 10, 10, 15, 20, 25, 30, 50];
    let mut callers = vec![];
    let two_services = rng.chance(1, 4);
    let shared_handle = rng.chance(1, 5);
    for _ in 0..n {
        let start_ms = *rng.pick(&starts);
        let beh = if faulty {
            gen_behaviour(rng, &lats, 20, 8, 6)
        } else {
            gen_behaviour(rng, &lats, 0, 0, 0)
        };
        let cancel = if faulty {
            gen_cancel(rng, start_ms, 25)
        } else {
            CancelSpec::Never
        };
        callers.push(Caller {
            start_ms,
            beh,
            cancel,
            drop_unpolled: faulty && rng.chance(1, 12),
            depth: rng.below(3) as u8,
            hold_unpolled_ms: if faulty && rng.chance(1, 10) { *rng.pick(&[1u64, 5, 10, 20]) } else { 0 },
            svc: if two_services { rng.below(2) as u8 } else { 0 },
            handle: if shared_handle { *rng.pick(&[1u8, 1, 2]) } else { 0 },
            hold_finished_ms: if rng.chance(1, 8) { *rng.pick(&[5u64, 20, 60]) } else { 0 },
        });
    }
    let pre = if max_wait.is_some() { *rng.pick(&[0u8, 0, 0, 1, 2, 3, 4]) } else { *rng.pick(&[0u8, 0, 0, 4]) };
    let reentrant = if !shared_handle && matches!(max_wait, Some(w) if w <= 100) && rng.chance(1, 4) { (0..rng.range(1, 3)).map(|_| rng.below(n as u64) as u32).collect() } else { vec![] };
    Scn {
        reentrant,
        nested: rng.chance(1, 6),
        decoy_namesake: rng.chance(1, 6),
        inner_capacity: if !shared_handle && rng.chance(1, 6) { Some(rng.range(1, 3) as u32) } else { None },
        two_services,
        shared_handle,
        pre,
        wait_first: rng.chance(1, 2),
        max,
        max_wait,
        callers,
        probes: if max == u32::MAX { 3 } else { max + 1 },
        probe_at: 1000,
        listener_panic: faulty && rng.chance(1, 5),
        knobs: SchedKnobs::gen(rng, faulty, 60),
    }
}

pub fn valid(s: &Scn) -> bool {
    (s.max <= 8 || s.max == u32::MAX)
        && (s.callers.len() <= 16 || (s.callers.len() <= 140 && s.reentrant.is_empty() && !s.two_services && !s.shared_handle && s.inner_capacity.is_none() && s.callers.iter().all(|c| !c.drop_unpolled && c.hold_unpolled_ms == 0 && c.hold_finished_ms == 0)))
        && !s.callers.is_empty()
        && s.callers.iter().all(|c| c.start_ms <= 500 && c.beh.lat_ms <= 200 && c.beh.yields <= 4)
        && s.max_wait.map(|w| w <= 100 || w == u64::MAX || (LONG_WAITS.contains(&w) && s.probes == 0 && s.knobs.jumps.is_empty())).unwrap_or(true)
        && s.callers.iter().all(|c| c.hold_unpolled_ms <= 50 && c.hold_finished_ms <= 100)
        && (s.probes == 0 || (s.probe_at >= 900 && s.probe_at <= 2000 && s.probes == if s.max == u32::MAX { 3 } else { s.max + 1 }))
        && s.knobs.jumps.iter().all(|j| j.0 <= 500 && j.1 <= 200)
        && s.knobs.jumps.len() <= 3
        && s.pre <= 4
        && (s.reentrant.is_empty() || (!s.shared_handle && matches!(s.max_wait, Some(w) if w <= 100) && s.reentrant.len() <= 4 && s.reentrant.iter().all(|i| (*i as usize) < s.callers.len())))
        && s.inner_capacity.map(|c| c >= 1 && c <= 4 && !s.shared_handle).unwrap_or(true)
        && (s.max_wait.is_some() || s.pre == 0 || s.pre == 4)
        && s.callers.iter().all(|c| c.svc <= 1 && (s.two_services || c.svc == 0))
        && s.callers.iter().all(|c| if s.shared_handle { c.handle == 1 || c.handle == 2 } else { c.handle == 0 })
}

fn map_out(r: Result<crate::inner::Resp, BulkheadServiceError<crate::inner::SimErr>>) -> Out {
    match r {
        Ok(x) => Out::ok(x),
        Err(BulkheadServiceError::Bulkhead(BulkheadError::Timeout)) => Out::err("Timeout", None),
        Err(BulkheadServiceError::Bulkhead(BulkheadError::BulkheadFull { .. })) => {
            Out::err("BulkheadFull", None)
        }
        Err(BulkheadServiceError::Inner(e)) => Out::err("Inner", Some(e)),
    }
}

pub fn run(s: &Scn, ctx: &mut RunCtx, prefix: &'static str) -> RunOutput {
    world::reset();
    let n = s.callers.len();
    let total_tasks = n + s.probes as usize;
    // (a waiter with a very long max_wait is followed until it is rejected: idle virtual time
    // costs nothing)
    let horizon = match s.max_wait {
        Some(w) if LONG_WAITS.contains(&w) => w + 5_000,
        _ => s.probe_at + 600,
    };
    let cfg = s.knobs.cfg(ctx, horizon, 0);
    let max = if s.max == u32::MAX { i64::MAX } else { s.max as i64 };
    let scn = s.clone();
    let setup = move || {
        // scripts
        world::with(|w| {
            for (i, c) in scn.callers.iter().enumerate() {
                w.script.by_req.insert((c.svc, i as u32), vec![c.beh]);
            }
            for p in 0..scn.probes {
                w.script.by_req.insert(
                    (0, (n as u32) + p),
                    vec![Behaviour {
                        lat_ms: PROBE_LAT,
                        out: Outcome::Ok,
                        yields: 0,
                    }],
                );
            }
        });
        if let Some(c) = scn.inner_capacity {
            world::with(|w| {
                w.script.capacity.insert(0, c as i64);
                w.script.capacity.insert(1, c as i64);
            });
        }
        let mut b = match scn.pre {
            1 => BulkheadLayer::builder().reject_when_full(),
            2 => BulkheadLayer::small(),
            3 => BulkheadLayer::builder().max_wait_duration(Duration::from_millis(3)),
            4 => BulkheadLayer::builder().max_concurrent_calls(count(scn.max).saturating_add(2)),
            _ => BulkheadLayer::builder(),
        };
        let wait = scn.max_wait.map(|w| if w == u64::MAX { Duration::MAX } else { Duration::from_millis(w) });
        if scn.wait_first {
            if let Some(w) = wait {
                b = b.max_wait_duration(w);
            }
            b = b.max_concurrent_calls(count(scn.max));
        } else {
            b = b.max_concurrent_calls(count(scn.max));
            if let Some(w) = wait {
                b = b.max_wait_duration(w);
            }
        }
        if scn.listener_panic {
            b = b
                .on_call_permitted(|_| {
                    world::fault("listener_panic");
                    std::panic::panic_any(SimPanic)
                })
                .on_call_rejected(|_| {
                    world::fault("listener_panic");
                    std::panic::panic_any(SimPanic)
                })
                .on_call_finished(|_| std::panic::panic_any(SimPanic))
                .on_call_failed(|_| std::panic::panic_any(SimPanic));
        }
        let namesake = if scn.decoy_namesake {
            b = b.name("orders-db");
            world::fault("same_named_bulkhead_alive");
            build_guarded("C07.admit_at_once", "a second bulkhead with the same name", || {
                BulkheadLayer::builder().name("orders-db").max_concurrent_calls(count(scn.max).saturating_add(2)).build().layer(SimInner::new(3))
            })
        } else {
            None
        };
        NAMESAKE.with(|n| *n.borrow_mut() = namesake.map(|x| Box::new(x) as Box<dyn std::any::Any>));
        let layer = b.build();
        // the one shared handle per service (never cloned unless a caller clones it on arrival)
        type Svc = tower::util::BoxCloneService<Req, crate::inner::Resp, BulkheadServiceError<crate::inner::SimErr>>;
        let nested = scn.nested;
        let Some(shared): Option<Vec<std::rc::Rc<std::cell::RefCell<Svc>>>> = build_guarded("C07.admit_at_once", &format!("a bulkhead with max_concurrent_calls={}", count(scn.max)), || {
            (0..2u8)
                .map(|k| {
                    let inner = layer.layer(SimInner::new(k));
                    let svc: Svc = if nested {
                        // the outer bulkhead never limits anything here (64 slots, unlimited wait)
                        let outer = BulkheadLayer::builder().max_concurrent_calls(64).build();
                        tower::util::BoxCloneService::new(outer.layer(inner).map_err(|e| match e {
                            BulkheadServiceError::Inner(e) => e,
                            BulkheadServiceError::Bulkhead(b) => BulkheadServiceError::Bulkhead(b),
                        }))
                    } else {
                        tower::util::BoxCloneService::new(inner)
                    };
                    std::rc::Rc::new(std::cell::RefCell::new(svc))
                })
                .collect()
        }) else {
            return vec![];
        };
        if !scn.reentrant.is_empty() {
            // nested requests: id 500+i, same service as the outer caller (carried in `key`)
            world::with(|w| {
                for i in &scn.reentrant {
                    let svc = scn.callers[*i as usize].svc;
                    w.script.nested.insert((svc, *i), Req { id: 500 + *i, key: svc as u32 });
                    w.script.by_req.insert((svc, 500 + *i), vec![Behaviour { lat_ms: 5, out: Outcome::Ok, yields: 0 }]);
                }
            });
            let protos: Vec<Svc> = shared.iter().map(|s| s.borrow().clone()).collect();
            crate::inner::NESTED.with(|nst| {
                *nst.borrow_mut() = Some(std::rc::Rc::new(move |r: Req| {
                    let mut s = protos[(r.key as usize).min(1)].clone();
                    let wk = std::task::Waker::noop();
                    match s.poll_ready(&mut std::task::Context::from_waker(wk)) {
                        std::task::Poll::Ready(Ok(())) => {
                            let f = s.call(Req { id: r.id, key: 0 });
                            // the nested request queues like any other caller (it is polled for
                            // the first time in the same poll that creates it)
                            struct Done(i64);
                            impl Drop for Done {
                                fn drop(&mut self) {
                                    world::note("nested_done", self.0, 0);
                                }
                            }
                            world::note("nested_arrive", r.id as i64, r.key as i64);
                            let done = Done(r.id as i64);
                            Some(Box::pin(async move {
                                let _ = f.await;
                                drop(done);
                                drop(s);
                            }) as crate::inner::NestedFut)
                        }
                        _ => None,
                    }
                }))
            });
        }
        let mut defs = vec![];
        for i in 0..total_tasks {
            let (start_ms, cancel, drop_unpolled, depth, hold, which, handle) = if i < n {
                let c = &scn.callers[i];
                (c.start_ms, c.cancel.to_cancel(), c.drop_unpolled, c.depth, c.hold_unpolled_ms, c.svc, c.handle)
            } else {
                (scn.probe_at, crate::exec::Cancel::Never, false, 0, 0, 0, if scn.shared_handle { 1 } else { 0 })
            };
            let hold_finished = if i < n { scn.callers[i].hold_finished_ms } else { 0 };
            let sh = shared[which as usize].clone();
            let mut early = if handle == 0 { Some(sh.borrow().clone()) } else { None };
            for _ in 0..depth {
                early = early.map(|s| s.clone());
            }
            let req = Req {
                id: i as u32,
                key: 0,
            };
            let make: Box<dyn FnOnce() -> LocalFut> = Box::new(move || {
                Box::pin(async move {
                    let mut own = match handle {
                        0 => early,
                        2 => Some(sh.borrow().clone()),
                        _ => None,
                    };
                    let ready = match own.as_mut() {
                        Some(svc) => svc.ready().await.map(|_| ()),
                        None => std::future::poll_fn(|cx| sh.borrow_mut().poll_ready(cx)).await,
                    };
                    match ready {
                        Err(e) => map_out(Err(e)),
                        Ok(()) => {
                            let f = match own.as_mut() {
                                Some(svc) => svc.call(req),
                                None => sh.borrow_mut().call(req),
                            };
                            if drop_unpolled {
                                world::fault("drop_unpolled");
                                drop(f);
                                return Out::err("DroppedUnpolled", None);
                            }
                            if hold > 0 {
                                world::fault("hold_unpolled");
                                tokio::time::sleep(Duration::from_millis(hold)).await;
                            }
                            // arrival = the first poll of the call future
                            world::note("arrive", i as i64, which as i64);
                            let mut f = Box::pin(f);
                            let r = f.as_mut().await;
                            // the call is over here, whatever happens to the future object
                            world::note("done", i as i64, 0);
                            if hold_finished > 0 {
                                world::fault("hold_finished_future");
                                tokio::time::sleep(Duration::from_millis(hold_finished)).await;
                            }
                            drop(f);
                            map_out(r)
                        }
                    }
                })
            });
            defs.push(TaskDef {
                start_ms,
                make,
                cancel,
            });
        }
        defs
    };
    let mut step = |_k| {
        for k in 0..2 {
            let inf = world::with(|w| w.in_flight[k]);
            if inf > max {
                world::violation(
                    "C01.in_flight_le_max",
                    "",
                    format!("{} calls inside the inner service of service {}, max_concurrent_calls={}", inf, k, max),
                );
            }
        }
    };
    let mut idle = || {
        // C07.work_conserving: at a quiescent point nobody is queued while a slot is free
        for k in 0..2i64 {
            let (queued, inf) = world::with(|w| {
                let mut started = std::collections::BTreeSet::new();
                for r in &w.log {
                    match &r.ev {
                        Ev::Note { tag: "arrive", a, b } if *b == k => {
                            started.insert(*a as u32);
                        }
                        Ev::TaskEnd { task, .. } => {
                            started.remove(task);
                        }
                        Ev::Note { tag: "done", a, .. } => {
                            started.remove(&(*a as u32));
                        }
                        Ev::InnerCall { req, .. } => {
                            started.remove(req);
                        }
                        _ => {}
                    }
                }
                (started, w.in_flight[k as usize])
            });
            if !queued.is_empty() && inf < max {
                world::violation(
                    "C07.work_conserving",
                    "",
                    format!(
                        "at a quiescent point (t={}ms) callers {:?} of service {} are queued while only {} of {} slots are in use",
                        world::now_ms(),
                        queued,
                        k,
                        inf,
                        max
                    ),
                );
            }
        }
    };
    let rep = run_sim(
        cfg,
        &mut ctx.chooser,
        setup,
        Hooks {
            step: &mut step,
            idle: &mut idle,
        },
    );
    NAMESAKE.with(|n| *n.borrow_mut() = None);
    crate::inner::NESTED.with(|n| *n.borrow_mut() = None);
    // ---- history checks
    let log = world::with(|w| std::mem::take(&mut w.log));
    let calls = inner_calls(&log);
    let total_jump = s.knobs.total_jump();
    let eff_max_wait = s.max_wait.filter(|w| *w != u64::MAX);
    // arrival (first poll of the call future) per task: (seq, t_us, step)
    let mut arrive: Vec<Option<(u64, u64, u32)>> = vec![None; rep.tasks.len()];
    for r in log.iter() {
        if let Ev::Note { tag: "arrive", a, .. } = &r.ev {
            arrive[*a as usize] = Some((r.seq, r.t_us, r.step));
        }
    }
    let mut contention = false;
    let mut had_fault = false;
    let svc_of = |i: usize| -> u8 { if i < n { s.callers[i].svc } else { 0 } };
    for c in calls.iter() {
        let before = in_flight_before(&calls, c.svc, c.start_seq);
        if before as i64 >= max {
            world::violation(
                "C01.in_flight_le_max",
                "",
                format!(
                    "inner call for request {} started at t={}us with {} calls already inside (max {})",
                    c.req, c.start_us, before, max
                ),
            );
        }
    }
    for k in 0..2 {
        if world::with(|w| w.max_in_flight[k]) > max {
            world::violation(
                "C01.in_flight_le_max",
                "",
                format!("peak in-flight {} > max {} (service {})", world::with(|w| w.max_in_flight[k]), max, k),
            );
        }
    }
    // the instant / sequence number at which caller i's call resolved (its task may live on)
    let done: Vec<Option<(u64, u64)>> = (0..rep.tasks.len()).map(|i| crate::logq::notes(&log, "done").find(|(_, a, _)| *a == i as i64).map(|(r, _, _)| (r.seq, r.t_us))).collect();
    let first_poll: Vec<Option<(u64, u32)>> = arrive.iter().map(|a| a.map(|(s, _, st)| (s, st))).collect();
    let arr_us = |i: usize| arrive[i].map(|a| a.1).unwrap_or(0);
    for (i, t) in rep.tasks.iter().enumerate() {
        let Some((fp_seq, fp_step)) = first_poll[i] else { continue };
        let is_probe = i >= n;
        let drop_unpolled = !is_probe && s.callers[i].drop_unpolled;
        let k = svc_of(i);
        let my_calls: Vec<_> = calls.iter().filter(|c| c.svc == k && c.req == i as u32).collect();
        let before = in_flight_before(&calls, k, fp_seq) as i64;
        if before >= max && !is_probe {
            contention = true;
        }
        // queued before my arrival
        let queued_before = rep.tasks.iter().enumerate().any(|(j, u)| {
            j != i
                && svc_of(j) == k
                && arrive[j].map(|a| a.0 < fp_seq).unwrap_or(false)
                && (u.end_seq == 0 || u.end_seq > fp_seq)
                && done[j].map(|d| d.0 > fp_seq).unwrap_or(true)
                && !calls
                    .iter()
                    .any(|c| c.svc == k && c.req == j as u32 && c.start_seq < fp_seq)
        });
        // nested requests (sent by the inner service back through the bulkhead) queue as well
        let nested_queued_before = crate::logq::notes(&log, "nested_arrive").any(|(r, id, svc)| {
            svc == k as i64
                && r.seq < fp_seq
                && crate::logq::notes(&log, "nested_done").find(|(_, a, _)| *a == id).map(|(d, _, _)| d.seq > fp_seq).unwrap_or(true)
                && !calls.iter().any(|c| c.svc == k && c.req as i64 == id && c.start_seq < fp_seq)
        });
        let queued_before = queued_before || nested_queued_before;
        if !drop_unpolled && before < max && !queued_before {
            // "at once" = at the same virtual instant (an implementation may hop through a spawned task)
            let _ = fp_step;
            let admitted_now = my_calls.iter().any(|c| c.start_us == arr_us(i));
            if !admitted_now {
                world::violation(
                    "C07.admit_at_once",
                    "",
                    format!(
                        "caller {} arrived at t={}us with {} of {} slots in use and nobody queued, but its inner call did not start at that instant",
                        i, arr_us(i), before, max
                    ),
                );
            }
        }
        if my_calls.len() > 1 {
            world::violation(
                "C07.rejected_never_inner",
                "twice",
                format!("request {} reached the inner service {} times", i, my_calls.len()),
            );
        }
        // nobody waits longer than max_wait: a caller that got its slot later than that should
        // have been rejected at the deadline (a slot freed exactly at the deadline may go either way)
        if let (Some(mw), Some(c)) = (eff_max_wait, my_calls.first()) {
            let deadline = arr_us(i) + mw * 1000;
            if c.start_us > deadline + total_jump * 1000 {
                world::violation(
                    "C07.reject_instant",
                    "admitted_after_max_wait",
                    format!("caller {} arrived at {}us, max_wait {}ms, but was kept waiting and admitted at {}us", i, arr_us(i), mw, c.start_us),
                );
            }
        }
        match t.status {
            Status::Resolved => {
                let o = t.out.as_ref().unwrap();
                match o.err {
                    Some("Timeout") => {
                        had_fault = true;
                        match eff_max_wait {
                            None => world::violation(
                                "C07.only_timeout",
                                "timeout_without_max_wait",
                                format!("caller {} got Timeout although no max_wait is configured", i),
                            ),
                            Some(mw) => {
                                let want = arr_us(i) + mw * 1000;
                                let end_us = done[i].map(|d| d.1).unwrap_or(t.end_us);
                                let ok = if total_jump == 0 {
                                    end_us == want
                                } else {
                                    end_us >= want && end_us <= want + total_jump * 1000
                                };
                                if !ok {
                                    world::violation(
                                        "C07.reject_instant",
                                        "",
                                        format!(
                                            "caller {} arrived at {}us, max_wait {}ms, rejected at {}us",
                                            i, arr_us(i), mw, end_us
                                        ),
                                    );
                                }
                            }
                        }
                        if !my_calls.is_empty() {
                            world::violation(
                                "C07.rejected_never_inner",
                                "rejected",
                                format!("rejected caller {} reached the inner service", i),
                            );
                        }
                    }
                    Some("BulkheadFull") => {
                        world::violation(
                            "C07.only_timeout",
                            "bulkhead_full",
                            format!("caller {} rejected with BulkheadFull", i),
                        );
                    }
                    Some("Inner") => {
                        // must be its own scripted error
                        let want = if is_probe { Outcome::Ok } else { s.callers[i].beh.out };
                        let okk = matches!((want, &o.inner), (Outcome::Err(k), Some(e)) if e.kind == k && e.req == i as u32);
                        if !okk {
                            world::violation(
                                "C07.only_timeout",
                                "wrong_error",
                                format!("caller {} got inner error {:?}, scripted {:?}", i, o.inner, want),
                            );
                        }
                    }
                    _ => {}
                }
            }
            Status::Cancelled => {
                had_fault = true;
                if my_calls.iter().any(|c| c.start_seq > t.end_seq) {
                    world::violation(
                        "C07.rejected_never_inner",
                        "cancelled",
                        format!("request {} reached the inner service after its caller was cancelled", i),
                    );
                }
                if my_calls.is_empty() {
                    world::probe("cancel_while_queued");
                } else {
                    world::probe("cancel_while_running");
                }
            }
            Status::Panicked => {
                had_fault = true;
                let scripted = !is_probe && matches!(s.callers[i].beh.out, Outcome::Panic | Outcome::PanicInCall);
                if !scripted || t.panic_msg.as_deref() != Some("SimPanic") {
                    world::violation(
                        "C07.only_timeout",
                        "panic",
                        format!("caller {} panicked: {:?}", i, t.panic_msg),
                    );
                }
            }
            Status::Unresolved => {
                let own_never = !is_probe
                    && s.callers[i].beh.out == Outcome::Never
                    && !my_calls.is_empty();
                let end_inflight = calls
                    .iter()
                    .filter(|c| c.svc == k && c.end_seq.is_none())
                    .count() as i64;
                let blocked = eff_max_wait.is_none() && my_calls.is_empty() && end_inflight >= max;
                if !own_never && !blocked {
                    world::violation(
                        "C07.no_hang",
                        "",
                        format!(
                            "caller {} never resolved ({} calls still inside at the end, max {})",
                            i, end_inflight, max
                        ),
                    );
                }
            }
            _ => {}
        }
    }
    // probe burst: capacity restored
    let mut probes_ran = false;
    if s.probes > 0 && rep.tasks.len() == total_tasks {
        let probe_fp: Vec<_> = (n..total_tasks).filter_map(|i| first_poll[i].map(|f| (i, f))).collect();
        // (the burst rule needs the probes to arrive together; a wrapped service that lets them
        // become ready one by one spreads them out)
        let together = (n..total_tasks).filter_map(|i| arrive[i].map(|a| a.1)).collect::<std::collections::BTreeSet<_>>().len() <= 1;
        if probe_fp.len() == s.probes as usize && together {
            probes_ran = true;
            let first_seq = probe_fp.iter().map(|p| p.1 .0).min().unwrap();
            let stuck = in_flight_before(&calls, 0, first_seq) as i64;
            let expected = (max - stuck).max(0).min(s.probes as i64);
            let admitted = probe_fp
                .iter()
                .filter(|(i, _)| {
                    calls.iter().any(|c| {
                        c.svc == 0 && c.req == *i as u32 && c.start_us == arr_us(*i)
                    })
                })
                .count() as i64;
            if admitted != expected {
                world::violation(
                    "C07.capacity_restored",
                    "",
                    format!(
                        "after the history {} calls are still inside (never-completing, caller alive); a burst of {} probes got {} slots at once, expected {} (max {})",
                        stuck, s.probes, admitted, expected, max
                    ),
                );
            }
            if stuck > 0 {
                world::probe("probe_with_stuck_calls");
            }
        }
    }
    if contention {
        world::probe("arrival_while_full");
    }
    // release-vs-timeout tie probe: an InnerEnd and a Timeout rejection at the same instant
    for t in rep.tasks.iter() {
        if let Some(o) = &t.out {
            if o.err == Some("Timeout")
                && calls.iter().any(|c| c.end_us == Some(t.end_us) && c.end_seq.is_some())
                && true
            {
                world::probe("release_and_timeout_same_instant");
                break;
            }
        }
    }
    let nontrivial = if prefix == "C01" {
        contention
    } else {
        had_fault && probes_ran
    };
    let mut w = world::take();
    w.log = log;
    finish(w, ctx, &rep, prefix, nontrivial, outcome_summary(&rep))
}

pub struct C01;
pub struct C07;

fn common_real() -> Vec<&'static str> {
    vec![
        "tower-resilience-bulkhead (Bulkhead, BulkheadLayer, builder, listeners)",
        "tokio::sync::Semaphore, tokio::time::timeout on the paused clock",
        "tower::ServiceExt::ready",
    ]
}

impl Prop for C01 {
    fn id(&self) -> &'static str {
        "C01"
    }
    fn supplement(&self, tier: Tier, seed: u64) -> (Vec<crate::world::Violation>, Value) {
        super::common::msim_supplement("C01", "bulkhead", tier, seed)
    }
    fn engine(&self) -> &'static str {
        "asim + tsim (shuttle) + msim (Miri)"
    }
    fn gen(&self, rng: &mut Rng, _t: Tier) -> Value {
        if rng.chance(1, 12) {
            return serde_json::to_value(super::svcthreads::gen_bulkhead(rng)).unwrap();
        }
        serde_json::to_value(gen(rng)).unwrap()
    }
    fn valid(&self, v: &Value) -> bool {
        if super::svcthreads::is_threads(v) {
            return super::svcthreads::valid_json(v) && matches!(parse::<super::svcthreads::ScnT>(v).map(|s| s.kind), Some(super::svcthreads::Kind::Bulkhead { .. }));
        }
        parse::<Scn>(v).map(|s| valid(&s)).unwrap_or(false)
    }
    fn run(&self, v: &Value, ctx: &mut RunCtx) -> RunOutput {
        if super::svcthreads::is_threads(v) {
            return super::svcthreads::run_json(v, ctx, "C01");
        }
        run(&parse::<Scn>(v).unwrap(), ctx, "C01")
    }
    fn runs(&self, t: Tier) -> u64 {
        match t {
            Tier::Quick => 20_000,
            Tier::Thorough => 8_000_000,
        }
    }
    fn nontrivial_rule(&self) -> &'static str {
        "scenario = seeded bulkhead config (max 0..4 or usize::MAX, max_wait none/0/5/10/25ms/Duration::MAX or an hour / a year / three years with holders that never finish, optionally a wider bulkhead with the same explicit name alive next to it, optionally inner calls that send a nested request back through the bulkhead (finite max_wait only), builder calls in either order with redundant earlier setters or a preset), optionally a second service built from the same layer, 2-12 callers on clones made in advance, on the one never-cloned handle, or on clones made at arrival, futures held unpolled, In one run of six the wrapped service has a capacity (its readiness waits for a free slot, like tower's ConcurrencyLimit), with lattice arrival times/latencies, inner ok/error/panic/never, cancels, unpolled drops, clock jumps, panicking listeners; schedule = seeded choice among runnable tasks (uniform / PCT / newest / oldest). Non-trivial: some caller arrived while max_concurrent_calls calls were inside the inner service. Distinct = distinct event-log digest (sequence of all events with virtual times)."
    }
    fn real_components(&self) -> Vec<&'static str> {
        common_real()
    }
    fn stub_components(&self) -> Vec<&'static str> {
        vec!["inner service (SimInner: scripted latency/outcome, in-flight counter incremented in call())", "event listeners"]
    }
    fn assumptions(&self) -> Vec<&'static str> {
        vec!["task-level interleavings on one thread; tokio Semaphore internals trusted for preemption inside one poll"]
    }
}

impl Prop for C07 {
    fn id(&self) -> &'static str {
        "C07"
    }
    fn supplement(&self, tier: Tier, seed: u64) -> (Vec<crate::world::Violation>, Value) {
        super::common::msim_supplement("C07", "bulkhead", tier, seed)
    }
    fn engine(&self) -> &'static str {
        "asim + tsim (shuttle) + msim (Miri)"
    }
    fn gen(&self, rng: &mut Rng, _t: Tier) -> Value {
        if rng.chance(1, 12) {
            return serde_json::to_value(super::svcthreads::gen_bulkhead(rng)).unwrap();
        }
        serde_json::to_value(gen(rng)).unwrap()
    }
    fn valid(&self, v: &Value) -> bool {
        if super::svcthreads::is_threads(v) {
            return super::svcthreads::valid_json(v) && matches!(parse::<super::svcthreads::ScnT>(v).map(|s| s.kind), Some(super::svcthreads::Kind::Bulkhead { .. }));
        }
        parse::<Scn>(v).map(|s| valid(&s)).unwrap_or(false)
    }
    fn run(&self, v: &Value, ctx: &mut RunCtx) -> RunOutput {
        if super::svcthreads::is_threads(v) {
            return super::svcthreads::run_json(v, ctx, "C07");
        }
        run(&parse::<Scn>(v).unwrap(), ctx, "C07")
    }
    fn runs(&self, t: Tier) -> u64 {
        match t {
            Tier::Quick => 20_000,
            Tier::Thorough => 8_000_000,
        }
    }
    fn nontrivial_rule(&self) -> &'static str {
        "same scenario space as C01 plus a probe burst of max+1 callers at t=1000ms. Non-trivial: the history contained a rejection, cancellation or panic and the probe burst ran. Distinct = distinct event-log digest."
    }
    fn real_components(&self) -> Vec<&'static str> {
        common_real()
    }
    fn stub_components(&self) -> Vec<&'static str> {
        vec!["inner service (SimInner)", "event listeners"]
    }
    fn assumptions(&self) -> Vec<&'static str> {
        vec!["arrival of a call = the step of its first poll", "in runs with clock jumps a rejection may be late by at most the total jump"]
    }
}

#[allow(dead_code)]
fn _unused(_: Value) -> Value {
    json!(null)
}
