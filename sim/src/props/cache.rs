//! C10: cache hits return the latest unexpired value of the right key, misses call inner once,
//! errors are not cached, size bounded and victims chosen by the configured policy.
//! Oracle: a reference cache kept as a *set* of possible states (ties fork).

use super::common::*;
use crate::driver::{Prop, RunCtx, RunOutput, Tier};
use crate::exec::{run_sim, Hooks, LocalFut, Out, TaskDef};
use crate::inner::{Behaviour, Outcome, Req, SimErr, SimInner};
use crate::logq::inner_calls;
use crate::rng::Rng;
use crate::world::{self, Ev};
use serde::{Deserialize, Serialize};
use serde_json::Value;
use std::time::Duration;
use tower::{Layer, Service, ServiceExt};
use tower_resilience_cache::{CacheError, CacheLayer, EvictionPolicy, SharedCacheLayer};

#[derive(Clone, Debug, Serialize, Deserialize, PartialEq)]
pub struct Op {
    pub gap_ms: u64,
    pub key: u32,
    pub lat_ms: u64,
    pub err: bool,
    pub via: u8,
    pub cancel: CancelSpec,
}

#[derive(Clone, Debug, Serialize, Deserialize, PartialEq)]
pub struct Scn {
    /// 0 LRU, 1 LFU, 2 FIFO
    pub policy: u8,
    pub max_size: u32,
    pub ttl_ms: Option<u64>,
    pub shared: bool,
    pub ops: Vec<Op>,
    pub knobs: SchedKnobs,
    /// the wrapped service takes only this many calls at a time (readiness waits for a slot)
    #[serde(default)]
    pub inner_capacity: Option<u32>,
}

pub fn gen(rng: &mut Rng) -> Scn {
    let nkeys = rng.range(2, 5) as u32;
    // u32::MAX stands for usize::MAX ("unbounded" written as a size)
    let max_size = if rng.chance(1, 12) { u32::MAX } else { rng.range(1, 4) as u32 };
    // u64::MAX stands for Duration::MAX ("never expires" written as a TTL)
    let ttl_ms = *rng.pick(&[None, None, None, Some(20u64), Some(20), Some(20), Some(200), Some(200), Some(u64::MAX)]);
    let n = rng.range(20, 120) as usize;
    let conc = rng.chance(1, 3);
    let mut ops = vec![];
    // a hot key makes LFU frequencies differ
    let hot = rng.range(1, nkeys as u64) as u32;
    for _ in 0..n {
        let key = if rng.chance(1, 4) { hot } else { rng.range(1, nkeys as u64) as u32 };
        ops.push(Op {
            gap_ms: *rng.pick(&[0u64, 0, 0, 1, 1, 5, 5, 10, 20, 20, 25, 50, 250]),
            key,
            lat_ms: if conc { *rng.pick(&[0u64, 0, 5, 10, 30]) } else { *rng.pick(&[0u64, 0, 0, 0, 5]) },
            err: rng.chance(1, 10),
            via: rng.below(3) as u8,
            cancel: if conc && rng.chance(1, 25) { CancelSpec::AfterPolls(1) } else { CancelSpec::Never },
        });
    }
    // final sweep over all keys
    let mut keys: Vec<u32> = (1..=nkeys).collect();
    rng.shuffle(&mut keys);
    let mut first = true;
    for k in keys {
        ops.push(Op { gap_ms: if first { 40 } else { 0 }, key: k, lat_ms: 0, err: false, via: 0, cancel: CancelSpec::Never });
        first = false;
    }
    let mut knobs = SchedKnobs::gen(rng, false, 100);
    knobs.yield_every = 0;
    let inner_capacity = if conc && rng.chance(1, 3) { Some(rng.range(1, 2) as u32) } else { None };
    Scn { policy: rng.below(3) as u8, max_size, ttl_ms, shared: rng.chance(1, 3), ops, knobs, inner_capacity }
}

pub fn valid(s: &Scn) -> bool {
    s.policy <= 2
        && s.max_size >= 1
        && (s.max_size <= 6 || s.max_size == u32::MAX)
        && s.ttl_ms.map(|t| (t >= 1 && t <= 1000) || t == u64::MAX).unwrap_or(true)
        && !s.ops.is_empty()
        && s.ops.len() <= 140
        && s.ops.iter().all(|o| o.gap_ms <= 500 && o.key >= 1 && o.key <= 6 && o.lat_ms <= 50 && o.via <= 2)
        && s.knobs.jumps.is_empty()
}

// ---------------- reference model (state set)

#[derive(Clone, Debug, PartialEq, Eq, Hash, PartialOrd, Ord)]
struct Ent {
    key: u32,
    serial: u64,
    at: u64,
    used: u64,
    freq: u32,
    ord: u64,
}

#[derive(Clone, Debug, PartialEq, Eq, Hash, PartialOrd, Ord)]
struct St {
    ents: Vec<Ent>,
    tick: u64,
}

struct M {
    policy: u8,
    cap: usize,
    ttl: Option<u64>,
}

impl M {
    /// -> (new state, Some(serial) on hit)
    fn lookup(&self, st: &St, key: u32, now: u64) -> Vec<(St, Option<u64>)> {
        let mut s = st.clone();
        s.tick += 1;
        let Some(i) = s.ents.iter().position(|e| e.key == key) else {
            return vec![(s, None)];
        };
        s.ents[i].used = s.tick;
        s.ents[i].freq += 1;
        let age = now - s.ents[i].at;
        let mut out = vec![];
        let (can_hit, can_expire) = match self.ttl {
            None => (true, false),
            Some(t) => (age <= t, age >= t),
        };
        if can_hit {
            out.push((s.clone(), Some(s.ents[i].serial)));
        }
        if can_expire {
            let mut r = s.clone();
            r.ents.remove(i);
            out.push((r, None));
        }
        out
    }
    fn evict(&self, s: &St) -> Vec<St> {
        let mut out = vec![];
        match self.policy {
            0 => {
                let i = (0..s.ents.len()).min_by_key(|i| s.ents[*i].used).unwrap();
                let mut r = s.clone();
                r.ents.remove(i);
                out.push(r);
            }
            2 => {
                let i = (0..s.ents.len()).min_by_key(|i| s.ents[*i].ord).unwrap();
                let mut r = s.clone();
                r.ents.remove(i);
                out.push(r);
            }
            _ => {
                let m = s.ents.iter().map(|e| e.freq).min().unwrap();
                for i in 0..s.ents.len() {
                    if s.ents[i].freq == m {
                        let mut r = s.clone();
                        r.ents.remove(i);
                        out.push(r);
                    }
                }
            }
        }
        out
    }
    fn store(&self, st: &St, key: u32, serial: u64, now: u64) -> Vec<St> {
        let mut s = st.clone();
        s.tick += 1;
        if let Some(i) = s.ents.iter().position(|e| e.key == key) {
            s.ents[i].serial = serial;
            s.ents[i].at = now;
            s.ents[i].used = s.tick;
            s.ents[i].freq += 1;
            return vec![s];
        }
        let fresh = Ent { key, serial, at: now, used: s.tick, freq: 1, ord: s.tick };
        let mut bases: Vec<St> = vec![];
        if s.ents.len() >= self.cap {
            // (a) evict by policy among everything held
            bases.extend(self.evict(&s));
            // (b) an implementation may drop expired entries first
            if let Some(t) = self.ttl {
                for strict in [true, false] {
                    let mut p = s.clone();
                    p.ents.retain(|e| if strict { now - e.at <= t } else { now - e.at < t });
                    if p.ents.len() < s.ents.len() {
                        if p.ents.len() >= self.cap {
                            bases.extend(self.evict(&p));
                        } else {
                            bases.push(p);
                        }
                    }
                }
            }
        } else {
            bases.push(s);
        }
        for b in bases.iter_mut() {
            b.ents.push(fresh.clone());
            b.ents.sort();
        }
        bases.sort();
        bases.dedup();
        bases
    }
}

pub fn run(s: &Scn, ctx: &mut RunCtx) -> RunOutput {
    world::reset();
    let total: u64 = s.ops.iter().map(|o| o.gap_ms).sum();
    let cfg = s.knobs.cfg(ctx, total + 2000, 0);
    let scn = s.clone();
    let setup = move || {
        world::with(|w| {
            if let Some(c) = scn.inner_capacity {
                w.script.capacity.insert(0, c as i64);
                w.script.capacity.insert(1, c as i64);
            }
            for (i, o) in scn.ops.iter().enumerate() {
                for svc in 0..2u8 {
                    w.script.by_req.insert(
                        (svc, i as u32),
                        vec![Behaviour { lat_ms: o.lat_ms, out: if o.err { Outcome::Err(0) } else { Outcome::Ok }, yields: 0 }],
                    );
                }
            }
        });
        let policy = match scn.policy {
            0 => EvictionPolicy::Lru,
            1 => EvictionPolicy::Lfu,
            _ => EvictionPolicy::Fifo,
        };
        let mut defs = vec![];
        let mut at = 0u64;
        macro_rules! push_task {
            ($svc:expr, $i:expr, $o:expr) => {{
                let svc = $svc;
                let i = $i;
                let req = Req { id: i as u32, key: $o.key };
                let make: Box<dyn FnOnce() -> LocalFut> = Box::new(move || {
                    Box::pin(async move {
                        let mut svc = svc;
                        let r: Result<_, CacheError<SimErr>> = match svc.ready().await {
                            Err(e) => Err(e),
                            Ok(sv) => {
                                let before = world::with(|w| w.next_serial);
                                let f = sv.call(req);
                                let after = world::with(|w| w.next_serial);
                                world::note("lookup", i as i64, (after == before) as i64);
                                let r = f.await;
                                match &r {
                                    Ok(x) => world::note("result", i as i64, x.serial as i64),
                                    Err(_) => world::note("result", i as i64, -1),
                                };
                                r
                            }
                        };
                        match r {
                            Ok(x) => Out::ok(x),
                            Err(CacheError::Inner(e)) => Out::err("Inner", Some(e)),
                        }
                    })
                });
                defs.push(TaskDef { start_ms: at, make, cancel: $o.cancel.to_cancel() });
            }};
        }
        if scn.shared {
            let mut b = SharedCacheLayer::<Req, CKey, crate::inner::Resp>::builder().max_size(count(scn.max_size)).eviction_policy(policy).key_extractor(|r: &Req| CKey(r.key));
            if let Some(t) = scn.ttl_ms {
                b = b.ttl(if t == u64::MAX { Duration::MAX } else { Duration::from_millis(t) });
            }
            let Some((s0, s1)) = build_guarded("C10.miss_calls_inner", &format!("a shared cache with max_size={} policy {}", count(scn.max_size), scn.policy), || {
                let layer = b.build();
                (layer.layer(SimInner::new(0)), layer.layer(SimInner::new(1)))
            }) else {
                return vec![];
            };
            for (i, o) in scn.ops.iter().enumerate() {
                at += o.gap_ms;
                match o.via {
                    0 => push_task!(s0.clone(), i, o),
                    1 => push_task!(s1.clone(), i, o),
                    _ => push_task!(s1.clone().clone(), i, o),
                }
            }
        } else {
            let mut b = CacheLayer::<Req, CKey>::builder().max_size(count(scn.max_size)).eviction_policy(policy).key_extractor(|r: &Req| CKey(r.key));
            if let Some(t) = scn.ttl_ms {
                b = b.ttl(if t == u64::MAX { Duration::MAX } else { Duration::from_millis(t) });
            }
            let Some(base) = build_guarded("C10.miss_calls_inner", &format!("a cache with max_size={} policy {}", count(scn.max_size), scn.policy), || b.build().layer(SimInner::new(0))) else {
                return vec![];
            };
            let c1 = base.clone();
            for (i, o) in scn.ops.iter().enumerate() {
                at += o.gap_ms;
                match o.via {
                    0 => push_task!(base.clone(), i, o),
                    1 => push_task!(c1.clone(), i, o),
                    _ => push_task!(c1.clone().clone(), i, o),
                }
            }
        }
        defs
    };
    let mut step = |_k| {};
    let mut idle = || {};
    let rep = run_sim(cfg, &mut ctx.chooser, setup, Hooks { step: &mut step, idle: &mut idle });
    let log = world::with(|w| std::mem::take(&mut w.log));
    let calls = inner_calls(&log);
    let m = M { policy: s.policy, cap: count(s.max_size), ttl: s.ttl_ms.filter(|t| *t != u64::MAX).map(|t| t * 1000) };
    let mut states: Vec<St> = vec![St { ents: vec![], tick: 0 }];
    let mut hit_flag: std::collections::HashMap<u32, bool> = Default::default();
    let mut hits = 0;
    let mut evictions_possible = false;
    let mut overflow = false;
    let name = ["lru", "lfu", "fifo"][s.policy as usize];
    'outer: for r in log.iter() {
        let Ev::Note { tag, a, b } = &r.ev else { continue };
        let id = *a as u32;
        match *tag {
            "lookup" => {
                let key = s.ops[id as usize].key;
                let hit = *b == 1;
                hit_flag.insert(id, hit);
                let mut next = vec![];
                for st in &states {
                    for (ns, v) in m.lookup(st, key, r.t_us) {
                        if v.is_some() == hit {
                            next.push(ns);
                        }
                    }
                }
                next.sort();
                next.dedup();
                if next.is_empty() {
                    let held: Vec<Vec<(u32, u64, u64)>> = states.iter().take(3).map(|st| st.ents.iter().map(|e| (e.key, e.serial, e.at)).collect()).collect();
                    world::violation(
                        if hit { "C10.miss_expected" } else { "C10.hit_expected" },
                        name,
                        format!(
                            "request {} (key {}) at {}us was a {} but every state of the reference cache says otherwise; reference holds (key, serial, stored_at) {:?}; max_size={} ttl={:?}",
                            id,
                            key,
                            r.t_us,
                            if hit { "hit" } else { "miss" },
                            held,
                            s.max_size,
                            s.ttl_ms
                        ),
                    );
                    break 'outer;
                }
                states = next;
                if hit {
                    hits += 1;
                }
            }
            "result" => {
                let key = s.ops[id as usize].key;
                let hit = hit_flag.get(&id).copied().unwrap_or(false);
                if hit {
                    // value must be what the reference holds for that key
                    let ser = *b;
                    let next: Vec<St> = states
                        .iter()
                        .filter(|st| st.ents.iter().any(|e| e.key == key && e.serial as i64 == ser))
                        .cloned()
                        .collect();
                    if next.is_empty() {
                        let want: Vec<Option<u64>> = states.iter().take(4).map(|st| st.ents.iter().find(|e| e.key == key).map(|e| e.serial)).collect();
                        world::violation("C10.hit_value", name, format!("hit for request {} (key {}) returned serial {} but the latest stored value is {:?}", id, key, ser, want));
                        break 'outer;
                    }
                    states = next;
                } else if *b >= 0 {
                    let mut next = vec![];
                    for st in &states {
                        if st.ents.len() >= m.cap && !st.ents.iter().any(|e| e.key == key) {
                            evictions_possible = true;
                        }
                        next.extend(m.store(st, key, *b as u64, r.t_us));
                    }
                    next.sort();
                    next.dedup();
                    states = next;
                }
            }
            _ => {}
        }
        if states.len() > 512 {
            overflow = true;
            world::probe("state_set_overflow");
            break;
        }
        if states.len() > 1 {
            world::probe("ambiguous_states");
        }
        if states.iter().any(|st| st.ents.len() > m.cap) {
            world::violation("C10.size", name, "reference model exceeded capacity (harness bug)".into());
        }
    }
    let _ = overflow;
    // inner call counts
    for (i, t) in rep.tasks.iter().enumerate() {
        if t.first_poll_seq == 0 {
            continue;
        }
        let n = calls.iter().filter(|c| c.req == i as u32).count();
        match hit_flag.get(&(i as u32)) {
            Some(true) if n != 0 => world::violation("C10.miss_calls_once", "hit_called_inner", format!("request {} was served from the cache and still called the inner service {} times", i, n)),
            Some(false) if n != 1 => world::violation("C10.miss_calls_once", "miss", format!("request {} missed and called the inner service {} times", i, n)),
            _ => {}
        }
        if let (Some(o), Some(false)) = (t.out.as_ref(), hit_flag.get(&(i as u32))) {
            // a miss returns its own call's outcome
            let mine = calls.iter().find(|c| c.req == i as u32);
            let good = match (&o.ok, &o.inner, mine) {
                (Some(r), _, Some(c)) => r.serial == c.serial,
                (None, Some(e), Some(c)) => e.serial == c.serial && s.ops[i].err,
                _ => false,
            };
            if !good {
                world::violation("C10.miss_calls_once", "foreign_result", format!("request {} missed but got {:?}", i, o));
            }
        }
    }
    if evictions_possible {
        world::probe("store_into_full_cache");
    }
    let nontrivial = hits >= 2 && evictions_possible;
    let mut w = world::take();
    w.log = log;
    finish(w, ctx, &rep, "C10", nontrivial, serde_json::json!({"hits": hits, "requests": rep.tasks.len()}))
}

pub struct C10;

impl Prop for C10 {
    fn id(&self) -> &'static str {
        "C10"
    }
    fn supplement(&self, tier: Tier, seed: u64) -> (Vec<crate::world::Violation>, Value) {
        super::common::msim_supplement("C10", "cache", tier, seed)
    }
    fn engine(&self) -> &'static str {
        "asim + tsim (shuttle)"
    }
    fn gen(&self, rng: &mut Rng, _t: Tier) -> Value {
        // one run in eight drives the cache from several threads (engine B)
        if rng.chance(1, 8) {
            return serde_json::to_value(super::svcthreads::gen_cache(rng)).unwrap();
        }
        serde_json::to_value(gen(rng)).unwrap()
    }
    fn valid(&self, v: &Value) -> bool {
        if super::svcthreads::is_threads(v) {
            return super::svcthreads::valid_json(v) && matches!(parse::<super::svcthreads::ScnT>(v).map(|s| s.kind), Some(super::svcthreads::Kind::Cache { .. }));
        }
        parse::<Scn>(v).map(|s| valid(&s)).unwrap_or(false)
    }
    fn run(&self, v: &Value, ctx: &mut RunCtx) -> RunOutput {
        if super::svcthreads::is_threads(v) {
            return super::svcthreads::run_json(v, ctx, "C10");
        }
        run(&parse::<Scn>(v).unwrap(), ctx)
    }
    fn runs(&self, t: Tier) -> u64 {
        match t {
            Tier::Quick => 10_000,
            Tier::Thorough => 2_000_000,
        }
    }
    fn nontrivial_rule(&self) -> &'static str {
        "scenario = policy LRU/LFU/FIFO, max_size 1..4 or usize::MAX, keys whose Hash is coarser than their Eq, TTL none/20/200ms, private store (clones) or SharedCacheLayer over two inner services, 20-120 requests over 2-5 keys with seeded time gaps (incl. exactly the TTL), ok/error outcomes, optional overlapping misses and cancels, final sweep over all keys; In one run of six the wrapped service has a capacity (its readiness waits for a free slot, like tower's ConcurrencyLimit). One run in eight is a thread scenario (engine B): 2-4 shuttle threads drive clones of the real service with a no-op waker; every acquisition of a library lock, every operation on a library atomic and every verif::yield_async site is a scheduling point of the seeded thread scheduler; the clock is a paused tokio clock moved by Advance operations. every lookup (hit iff inner not invoked during call()) and stored value is compared with a reference cache kept as a set of states (TTL ties, LFU frequency ties and 'drop expired first' fork). Non-trivial: at least two hits and a store into a full cache. Distinct = distinct event-log digest."
    }
    fn real_components(&self) -> Vec<&'static str> {
        vec!["tower-resilience-cache (Cache, CacheLayer, SharedCacheLayer, CacheStore with TTL on tokio's paused clock (hook), LruStore/LfuStore (fixed hasher hook)/FifoStore)", "lru crate"]
    }
    fn stub_components(&self) -> Vec<&'static str> {
        vec!["inner services (SimInner, fresh serial per response)"]
    }
    fn assumptions(&self) -> Vec<&'static str> {
        vec!["LFU frequency counts lookups and stores of a key (as implemented; the documentation only says 'least frequently used')", "the size bound is observed through the model: an implementation holding more than max_size entries shows up as a hit the reference cannot explain"]
    }
}
