pub mod adaptive;
pub mod bulkhead;
pub mod c13;
pub mod c20;
pub mod cache;
pub mod chaos;
pub mod circuit;
pub mod coalesce;
pub mod common;
pub mod fallback;
pub mod healthcheck;
pub mod hedge;
pub mod ratelimiter;
pub mod reconnect;
pub mod retry;
pub mod svcthreads;
pub mod threads;
pub mod timelimiter;

use crate::driver::Prop;

pub fn all() -> Vec<Box<dyn Prop>> {
    vec![Box::new(bulkhead::C01), Box::new(bulkhead::C07), Box::new(timelimiter::C06), Box::new(retry::C05), Box::new(hedge::C12), Box::new(coalesce::C11), Box::new(ratelimiter::C02), Box::new(ratelimiter::C15), Box::new(circuit::C03), Box::new(circuit::C04), Box::new(circuit::C09), Box::new(cache::C10), Box::new(threads::C08), Box::new(c13::C13), Box::new(reconnect::C14), Box::new(reconnect::C16), Box::new(fallback::C17), Box::new(healthcheck::C18), Box::new(chaos::C19), Box::new(c20::C20)]
}

pub fn by_id(id: &str) -> Option<Box<dyn Prop>> {
    all().into_iter().find(|p| p.id() == id)
}
