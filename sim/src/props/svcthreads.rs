//! Engine B, second use: whole middleware services driven from several threads (shuttle
//! coroutines). What engine A cannot do is run one caller *between two statements* of another
//! that have no await point between them; two worker threads of a real runtime can. Here every
//! acquisition of a library lock (`verif::sync::Mutex`, the coalesce lock), every operation on a
//! library atomic (`verif::atomic`) and every `verif::yield_async` site is a scheduling point of
//! a seeded thread scheduler, and an observer checks an invariant after every such step.
//!
//! No tokio runtime runs here: each thread polls its call future with a no-op waker and yields to
//! the scheduler while it is pending. The clock is the paused clock of a runtime that is only
//! entered, moved by `Advance` operations. Scenarios avoid everything that needs a running
//! reactor (no waiting for permits or slots: rejection instead).
//!
//! Rate limiter (C02, C15): admissions respect the window whatever the interleaving.
//! Cache (C10): a stored, unexpired, unevicted value is found by the next lookup.
//! Circuit breaker (C03, C09): no new call gets through while open; at most `permitted` trials.

use super::common::*;
use super::threads::{hook as thread_yield, run_shuttle_unit};
use crate::driver::{RunCtx, RunOutput};
use crate::inner::{Behaviour, Outcome, Req, Resp, SimErr, SimInner};
use crate::logq::{inner_calls, notes};
use crate::rng::Rng;
use crate::world::{self, Violation};
use serde::{Deserialize, Serialize};
use serde_json::json;
use std::collections::BTreeMap;
use std::future::Future;
use std::hash::{Hash, Hasher};
use std::pin::Pin;
use std::task::{Context, Poll, RawWaker, RawWakerVTable, Waker};
use std::time::Duration;
use tower::{Layer, Service};

#[derive(Clone, Copy, Debug, Serialize, Deserialize, PartialEq)]
pub enum TOp {
    /// one request through this thread's clone of the service (key for the cache, error flag for the breaker)
    Call { key: u32, err: bool },
    /// move the shared virtual clock
    Advance(u64),
}

#[derive(Clone, Debug, Serialize, Deserialize, PartialEq)]
pub enum Kind {
    /// window 0 fixed / 1 sliding log / 2 sliding counter; zero timeout (reject, never wait)
    RateLimiter { window: u8, limit: u32, period_ms: u64 },
    /// policy 0 lru / 1 lfu / 2 fifo, max_size large enough never to evict
    Cache { policy: u8, ttl_ms: u64 },
    /// count-based window of `size`, threshold 1/2, `permitted` trials, wait 30ms; the prologue
    /// (run by one thread before the others start) fails `size` calls and lets the wait elapse
    Breaker { size: u32, permitted: u32, time_based: bool },
    /// bulkhead with more slots than threads and no wait limit: everybody is admitted at once
    Bulkhead { max: u32 },
    /// reconnect with zero delay and `max_attempts`; a request flagged `err` meets a backend that
    /// refuses every call, the others succeed at once
    Reconnect { max_attempts: u32 },
    /// coalesce over `keys` keys (nobody is cancelled, nothing panics)
    Coalesce { keys: u32 },
    /// adaptive limiter with a fixed limit (min = initial = max) that no thread count reaches
    Adaptive { limit: u32 },
}

#[derive(Clone, Debug, Serialize, Deserialize, PartialEq)]
pub struct ScnT {
    pub kind: Kind,
    pub threads: Vec<Vec<TOp>>,
    pub pct_depth: u32,
    /// no tokio runtime is even entered (a foreign executor, or a runtime built without its
    /// time driver): paths that never wait must not need a timer. No Advance operations then.
    #[serde(default)]
    pub no_runtime: bool,
}

const WAIT_MS: u64 = 30;

pub fn gen_rl(rng: &mut Rng) -> ScnT {
    let period_ms = *rng.pick(&[20u64, 50]);
    let nt = rng.range(2, 3) as usize;
    let threads = (0..nt)
        .map(|_| {
            let n = rng.range(2, 6) as usize;
            (0..n)
                .map(|_| if rng.chance(1, 4) { TOp::Advance(*rng.pick(&[period_ms, period_ms, period_ms / 2, 2 * period_ms, 1])) } else { TOp::Call { key: 0, err: false } })
                .collect()
        })
        .collect();
    let threads: Vec<Vec<TOp>> = threads;
    let no_runtime = rng.chance(1, 3);
    let threads = if no_runtime { threads.into_iter().map(|t| t.into_iter().map(|_| TOp::Call { key: 0, err: false }).collect()).collect() } else { threads };
    ScnT { kind: Kind::RateLimiter { window: rng.below(3) as u8, limit: rng.range(1, 3) as u32, period_ms: if no_runtime { 3_600_000 } else { period_ms } }, threads, pct_depth: *rng.pick(&[0u32, 0, 2, 3]), no_runtime }
}

pub fn gen_cache(rng: &mut Rng) -> ScnT {
    let ttl_ms = 20;
    let nt = rng.range(2, 3) as usize;
    let threads = (0..nt)
        .map(|_| {
            let n = rng.range(2, 6) as usize;
            (0..n).map(|_| if rng.chance(1, 4) { TOp::Advance(*rng.pick(&[ttl_ms, ttl_ms, ttl_ms + 1, 5])) } else { TOp::Call { key: rng.range(1, 2) as u32, err: rng.chance(1, 8) } }).collect()
        })
        .collect();
    ScnT { kind: Kind::Cache { policy: rng.below(3) as u8, ttl_ms }, threads, pct_depth: *rng.pick(&[0u32, 0, 2, 3]), no_runtime: false }
}

pub fn gen_cb(rng: &mut Rng) -> ScnT {
    let nt = rng.range(2, 4) as usize;
    let threads = (0..nt)
        .map(|_| {
            let n = rng.range(1, 3) as usize;
            (0..n).map(|_| if rng.chance(1, 6) { TOp::Advance(*rng.pick(&[WAIT_MS, 5])) } else { TOp::Call { key: 0, err: rng.chance(1, 3) } }).collect()
        })
        .collect();
    ScnT { kind: Kind::Breaker { size: rng.range(1, 3) as u32, permitted: rng.range(1, 2) as u32, time_based: rng.chance(1, 3) }, threads, pct_depth: *rng.pick(&[0u32, 0, 2, 3]), no_runtime: false }
}

/// Is this scenario (JSON) one of ours? (the task scenarios have no `kind`)
pub fn is_threads(v: &serde_json::Value) -> bool {
    v.get("kind").is_some() && v.get("threads").is_some() && v.get("pct_depth").is_some()
}

pub fn valid_json(v: &serde_json::Value) -> bool {
    parse::<ScnT>(v).map(|s| valid(&s)).unwrap_or(false)
}

pub fn run_json(v: &serde_json::Value, ctx: &mut RunCtx, prefix: &'static str) -> RunOutput {
    run(&parse::<ScnT>(v).unwrap(), ctx, prefix)
}

pub fn gen_bulkhead(rng: &mut Rng) -> ScnT {
    let nt = rng.range(2, 3) as usize;
    let threads = (0..nt).map(|_| (0..rng.range(1, 4)).map(|_| TOp::Call { key: 0, err: rng.chance(1, 5) }).collect()).collect();
    ScnT { kind: Kind::Bulkhead { max: nt as u32 + rng.range(0, 2) as u32 }, threads, pct_depth: *rng.pick(&[0u32, 0, 2]), no_runtime: rng.chance(1, 2) }
}

pub fn gen_reconnect(rng: &mut Rng) -> ScnT {
    let nt = rng.range(2, 3) as usize;
    let threads = (0..nt).map(|_| (0..rng.range(1, 4)).map(|_| TOp::Call { key: 0, err: rng.chance(1, 2) }).collect()).collect();
    ScnT { kind: Kind::Reconnect { max_attempts: rng.range(1, 3) as u32 }, threads, pct_depth: *rng.pick(&[0u32, 0, 2, 3]), no_runtime: false }
}

pub fn gen_coalesce(rng: &mut Rng) -> ScnT {
    let keys = rng.range(1, 2) as u32;
    let nt = rng.range(2, 4) as usize;
    let threads = (0..nt).map(|_| (0..rng.range(1, 4)).map(|_| TOp::Call { key: rng.range(1, keys as u64) as u32, err: rng.chance(1, 5) }).collect()).collect();
    ScnT { kind: Kind::Coalesce { keys }, threads, pct_depth: *rng.pick(&[0u32, 0, 2, 3]), no_runtime: false }
}

pub fn gen_adaptive(rng: &mut Rng) -> ScnT {
    let nt = rng.range(2, 3) as usize;
    let threads = (0..nt).map(|_| (0..rng.range(1, 5)).map(|_| TOp::Call { key: 0, err: rng.chance(1, 4) }).collect()).collect();
    ScnT { kind: Kind::Adaptive { limit: nt as u32 + rng.range(0, 2) as u32 }, threads, pct_depth: *rng.pick(&[0u32, 0, 2, 3]), no_runtime: false }
}

pub fn valid(s: &ScnT) -> bool {
    if s.no_runtime && (s.threads.iter().flatten().any(|o| matches!(o, TOp::Advance(_))) || matches!(s.kind, Kind::Breaker { .. } | Kind::Cache { .. })) {
        return false;
    }
    let shape = !s.threads.is_empty() && s.threads.len() <= 4 && s.threads.iter().all(|t| t.len() <= 8) && s.pct_depth <= 5;
    let ops = s.threads.iter().flatten().all(|o| match o {
        TOp::Call { key, .. } => *key <= 4,
        TOp::Advance(d) => *d >= 1 && *d <= 200,
    });
    shape
        && ops
        && match &s.kind {
            Kind::RateLimiter { window, limit, period_ms } => *window <= 2 && *limit >= 1 && *limit <= 4 && *period_ms >= 10 && (*period_ms <= 100 || (s.no_runtime && *period_ms == 3_600_000)),
            Kind::Cache { policy, ttl_ms } => *policy <= 2 && *ttl_ms >= 5 && *ttl_ms <= 100,
            Kind::Breaker { size, permitted, .. } => *size >= 1 && *size <= 4 && *permitted >= 1 && *permitted <= 3,
            Kind::Bulkhead { max } => *max as usize >= s.threads.len() && *max <= 8 && s.threads.iter().flatten().all(|o| matches!(o, TOp::Call { .. })),
            Kind::Reconnect { max_attempts } => *max_attempts >= 1 && *max_attempts <= 4 && s.threads.iter().flatten().all(|o| matches!(o, TOp::Call { .. })),
            Kind::Coalesce { keys } => *keys >= 1 && *keys <= 3 && s.threads.iter().flatten().all(|o| matches!(o, TOp::Call { key, .. } if *key >= 1 && key <= keys)),
            Kind::Adaptive { limit } => *limit as usize >= s.threads.len() && *limit <= 8 && s.threads.iter().flatten().all(|o| matches!(o, TOp::Call { .. })),
        }
}

// ---------------------------------------------------------------- a thread's little executor

fn noop_waker() -> Waker {
    fn clone(_: *const ()) -> RawWaker {
        RawWaker::new(std::ptr::null(), &VT)
    }
    fn noop(_: *const ()) {}
    static VT: RawWakerVTable = RawWakerVTable::new(clone, noop, noop, noop);
    unsafe { Waker::from_raw(RawWaker::new(std::ptr::null(), &VT)) }
}

/// Polls `f` to completion, yielding to the thread scheduler while it is pending. None = still
/// pending after `max_polls` (something waits for a reactor that does not run here).
fn drive<F: Future>(f: F, max_polls: usize) -> Option<F::Output> {
    let mut f = Box::pin(f);
    let w = noop_waker();
    let mut cx = Context::from_waker(&w);
    for _ in 0..max_polls {
        match Pin::as_mut(&mut f).poll(&mut cx) {
            Poll::Ready(x) => return Some(x),
            Poll::Pending => thread_yield(),
        }
    }
    None
}

fn advance(ms: u64) {
    world::note("advance", ms as i64, 0);
    let _ = drive(tokio::time::advance(Duration::from_millis(ms)), 4);
}

fn async_yield_hook(_site: &'static str) -> bool {
    thread_yield();
    false
}

struct SendIt<T>(T);
// shuttle's threads are coroutines on the one OS thread that runs the execution
unsafe impl<T> Send for SendIt<T> {}

// ---------------------------------------------------------------- the run

pub fn run(s: &ScnT, ctx: &mut RunCtx, prefix: &'static str) -> RunOutput {
    world::reset();
    let scn = s.clone();
    let out = run_shuttle_unit(ctx.rt_seed, s.pct_depth, move || {
        let rt = if scn.no_runtime { None } else { Some(tokio::runtime::Builder::new_current_thread().enable_time().start_paused(true).build().expect("runtime")) };
        let _g = rt.as_ref().map(|r| r.enter());
        world::with(|w| {
            if scn.no_runtime {
                // no virtual clock: every event is stamped 0 (the real clock must not leak into the log)
                w.ended = true;
                w.end_us = 0;
            }
            w.t0 = Some(tokio::time::Instant::now());
            w.script.default = Behaviour { lat_ms: 0, out: Outcome::Ok, yields: 0 };
        });
        tower_resilience_core::verif::set_async_yield_hook(Some(async_yield_hook));
        // scripts: request id = thread * 100 + op index; the breaker prologue uses ids 900..
        world::with(|w| {
            for (ti, ops) in scn.threads.iter().enumerate() {
                for (k, op) in ops.iter().enumerate() {
                    if let TOp::Call { err: true, .. } = op {
                        w.script.by_req.insert((0, (ti * 100 + k) as u32), vec![Behaviour { lat_ms: 0, out: Outcome::Err(0), yields: 0 }]);
                    }
                }
            }
            for k in 0..8u32 {
                w.script.by_req.insert((0, 900 + k), vec![Behaviour { lat_ms: 0, out: Outcome::Err(0), yields: 0 }]);
            }
        });
        match scn.kind.clone() {
            Kind::RateLimiter { window, limit, period_ms } => {
                use tower_resilience_ratelimiter::{RateLimiterLayer, WindowType};
                let layer = RateLimiterLayer::builder()
                    .limit_for_period(limit as usize)
                    .refresh_period(Duration::from_millis(period_ms))
                    .timeout_duration(Duration::ZERO)
                    .window_type(match window {
                        0 => WindowType::Fixed,
                        1 => WindowType::SlidingLog,
                        _ => WindowType::SlidingCounter,
                    })
                    .build();
                let base = layer.layer(SimInner::new(0));
                spawn_all(&scn, move || {
                    let mut svc = base.clone();
                    Box::new(move |id: u32, _key: u32| {
                        let r = drive(std::future::poll_fn(|cx| svc.poll_ready(cx)), 50);
                        if let Some(Ok(())) = r {
                            let f = svc.call(Req { id, key: 0 });
                            let _ = drive(f, 50);
                        }
                    })
                });
            }
            Kind::Cache { policy, ttl_ms } => {
                use tower_resilience_cache::{CacheLayer, EvictionPolicy};
                let layer = CacheLayer::<Req, CKey>::builder()
                    .max_size(64)
                    .ttl(Duration::from_millis(ttl_ms))
                    .eviction_policy(match policy {
                        0 => EvictionPolicy::Lru,
                        1 => EvictionPolicy::Lfu,
                        _ => EvictionPolicy::Fifo,
                    })
                    .key_extractor(|r: &Req| CKey(r.key))
                    .build();
                let base = layer.layer(SimInner::new(0));
                let probe = base.clone();
                spawn_all(&scn, move || {
                    let mut svc = base.clone();
                    Box::new(move |id: u32, key: u32| {
                        if let Some(Ok(())) = drive(std::future::poll_fn(|cx| svc.poll_ready(cx)), 50) {
                            let before = world::with(|w| w.calls_by_req.get(&(0, id)).copied().unwrap_or(0));
                            let f = svc.call(Req { id, key });
                            let r = drive(f, 50);
                            let after = world::with(|w| w.calls_by_req.get(&(0, id)).copied().unwrap_or(0));
                            // (key, hit?, serial of the answer or -1)
                            let serial = match r {
                                Some(Ok(resp)) => resp.serial as i64,
                                _ => -1,
                            };
                            world::note(if after > before { "t_miss" } else { "t_hit" }, key as i64, serial);
                        }
                    })
                });
                // quiescent: every key once more, sequentially
                let mut probe = probe;
                for key in 1..=2u32 {
                    let id = 800 + key;
                    if let Some(Ok(())) = drive(std::future::poll_fn(|cx| probe.poll_ready(cx)), 50) {
                        let before = world::with(|w| w.calls_by_req.get(&(0, id)).copied().unwrap_or(0));
                        let r = drive(probe.call(Req { id, key }), 50);
                        let after = world::with(|w| w.calls_by_req.get(&(0, id)).copied().unwrap_or(0));
                        let serial = match r {
                            Some(Ok(resp)) => resp.serial as i64,
                            _ => -1,
                        };
                        world::note(if after > before { "final_miss" } else { "final_hit" }, key as i64, serial);
                    }
                }
            }
            Kind::Breaker { size, permitted, time_based } => {
                use tower_resilience_circuitbreaker::{CircuitBreakerLayer, SlidingWindowType};
                let mut b = CircuitBreakerLayer::builder()
                    .failure_rate_threshold(0.5)
                    .sliding_window_size(size as usize)
                    .minimum_number_of_calls(size as usize)
                    .wait_duration_in_open(Duration::from_millis(WAIT_MS))
                    .permitted_calls_in_half_open(permitted as usize)
                    .on_state_transition(|from, to| {
                        world::note("transition", from as i64, to as i64);
                    });
                if time_based {
                    b = b.sliding_window_type(SlidingWindowType::TimeBased).sliding_window_duration(Duration::from_millis(500));
                }
                let base = b.build().layer(SimInner::new(0));
                // prologue: fail until it opens, then let the wait elapse
                {
                    let mut svc = base.clone();
                    for k in 0..size {
                        if let Some(Ok(())) = drive(std::future::poll_fn(|cx| svc.poll_ready(cx)), 50) {
                            let _ = drive(svc.call(Req { id: 900 + k, key: 0 }), 200);
                        }
                    }
                    advance(WAIT_MS + 1);
                    world::note("prologue_done", 0, 0);
                }
                spawn_all(&scn, move || {
                    let mut svc = base.clone();
                    Box::new(move |id: u32, _key: u32| {
                        if let Some(Ok(())) = drive(std::future::poll_fn(|cx| svc.poll_ready(cx)), 50) {
                            let f = svc.call(Req { id, key: 0 });
                            // a call exists from here on, whenever its future is first polled
                            world::note("t_created", id as i64, 0);
                            let _ = drive(f, 400);
                        }
                    })
                });
            }
            Kind::Bulkhead { max } => {
                use tower_resilience_bulkhead::BulkheadLayer;
                let base = BulkheadLayer::builder().max_concurrent_calls(max as usize).build().layer(SimInner::new(0));
                spawn_all(&scn, move || {
                    let mut svc = base.clone();
                    Box::new(move |id: u32, _key: u32| {
                        if let Some(Ok(())) = drive(std::future::poll_fn(|cx| svc.poll_ready(cx)), 50) {
                            let r = drive(svc.call(Req { id, key: 0 }), 200);
                            world::note("t_result", id as i64, if r.is_some() { 0 } else { 4 });
                        }
                    })
                });
            }
            Kind::Reconnect { max_attempts } => {
                use tower_resilience_reconnect::{ReconnectConfig, ReconnectLayer, ReconnectPolicy};
                // every call of a request flagged `err` fails (the scripted error is repeated)
                let layer = ReconnectLayer::new(ReconnectConfig::builder().policy(ReconnectPolicy::fixed(Duration::ZERO)).max_attempts(max_attempts).build());
                let base = layer.layer(SimInner::new(0));
                spawn_all(&scn, move || {
                    let mut svc = base.clone();
                    Box::new(move |id: u32, _key: u32| {
                        if let Some(Ok(())) = drive(std::future::poll_fn(|cx| svc.poll_ready(cx)), 50) {
                            let r = drive(svc.call(Req { id, key: 0 }), 400);
                            world::note("t_result", id as i64, match r {
                                Some(Ok(_)) => 0,
                                Some(Err(_)) => 1,
                                None => 4,
                            });
                        }
                    })
                });
            }
            Kind::Coalesce { .. } => {
                use tower_resilience_coalesce::{CoalesceError, CoalesceLayer};
                let base = CoalesceLayer::new(|r: &Req| CKey(r.key)).layer(SimInner::new(0));
                spawn_all(&scn, move || {
                    let mut svc = base.clone();
                    Box::new(move |id: u32, key: u32| {
                        if let Some(Ok(())) = drive(std::future::poll_fn(|cx| svc.poll_ready(cx)), 50) {
                            let r = drive(svc.call(Req { id, key }), 2000);
                            // 0 ok, 1 inner error, 2 leader cancelled, 3 receive error, 4 never resolved
                            let (code, serial) = match &r {
                                Some(Ok(resp)) => (0, resp.serial as i64),
                                Some(Err(CoalesceError::Service(e))) => (1, e.serial as i64),
                                Some(Err(CoalesceError::LeaderCancelled)) => (2, -1),
                                Some(Err(CoalesceError::RecvError)) => (3, -1),
                                None => (4, -1),
                            };
                            world::note("t_result", (id as i64) * 10 + code, serial);
                        }
                    })
                });
            }
            Kind::Adaptive { limit } => {
                use tower_resilience_adaptive::{AdaptiveLimiterLayer, Aimd, Algorithm};
                let alg = Algorithm::Aimd(Aimd::builder().initial_limit(limit as usize).min_limit(limit as usize).max_limit(limit as usize).build());
                let base = AdaptiveLimiterLayer::new(alg).layer(SimInner::new(0));
                let handle = base.clone();
                spawn_all(&scn, move || {
                    let mut svc = base.clone();
                    Box::new(move |id: u32, _key: u32| {
                        match drive(std::future::poll_fn(|cx| svc.poll_ready(cx)), 50) {
                            Some(Ok(())) => {
                                let _ = drive(svc.call(Req { id, key: 0 }), 50);
                            }
                            _ => {
                                world::note("t_not_ready", id as i64, world::with(|w| w.in_flight[0]));
                            }
                        }
                    })
                });
                world::note("final_in_flight", handle.in_flight() as i64, world::with(|w| w.in_flight[0]));
            }
        }
        tower_resilience_core::verif::set_async_yield_hook(None);
        // what is logged while the runtime is torn down (tasks the library spawned and that never
        // ran are dropped in an order that is not ours) is not part of the execution
        let end = world::now_us();
        world::log(world::Ev::SimEnd);
        world::with(|w| {
            w.ended = true;
            w.end_us = end;
        });
        drop(_g);
        drop(rt);
        world::with(|w| w.ended = false);
    });
    tower_resilience_core::verif::set_async_yield_hook(None);
    // ---- history checks
    let log = world::with(|w| std::mem::take(&mut w.log));
    let calls = inner_calls(&log);
    let mut violations: Vec<Violation> = out.violations.clone();
    let mut push = |rule: &str, class: &str, msg: String| violations.push(Violation { rule: rule.into(), class: class.into(), msg });
    if let Some(p) = &out.panic {
        push(&format!("{}.threads", prefix), "panic", format!("execution panicked: {}", p));
    }
    let mut nontrivial = out.switches > s.threads.len() as u64;
    match &s.kind {
        Kind::RateLimiter { window, limit, period_ms } => {
            let adm: Vec<u64> = calls.iter().map(|c| c.start_us).collect();
            let (l, p) = (*limit as usize, period_ms * 1000);
            let bad = if *window == 1 {
                (0..adm.len().saturating_sub(l)).any(|i| adm[i + l] - adm[i] < p)
            } else {
                !super::ratelimiter::partition_feasible(&adm, l, p)
            };
            if bad {
                push(
                    if prefix == "C15" { "C15.waiters_take_permit" } else if *window == 1 { "C02.sliding_log" } else { "C02.window_partition" },
                    "threads",
                    format!("callers on {} threads: admissions at {:?}us do not respect limit {} per {}us (window type {})", s.threads.len(), adm, l, p, window),
                );
            }
            nontrivial = nontrivial && adm.len() > l;
        }
        Kind::Cache { ttl_ms, .. } => {
            // the last completed store per key (inner call that ended Ok) and the final lookup
            let end_us = log.last().map(|r| r.t_us).unwrap_or(0);
            for key in 1..=2u32 {
                let stores: Vec<_> = calls.iter().filter(|c| c.key == key && c.req < 800 && matches!(c.how, Some(crate::inner::EndHow::Ok))).collect();
                let fresh: Vec<_> = stores.iter().filter(|c| c.end_us.map(|e| end_us < e + ttl_ms * 1000).unwrap_or(false)).collect();
                let final_hit = notes(&log, "final_hit").find(|(_, k, _)| *k == key as i64).map(|(_, _, ser)| ser);
                let final_miss = notes(&log, "final_miss").any(|(_, k, _)| k == key as i64);
                if !fresh.is_empty() && final_miss {
                    push("C10.hit_expected", "threads", format!("key {}: values stored at {:?}us are younger than the TTL ({}ms) at {}us and nothing was evicted, yet the next lookup was a miss", key, fresh.iter().map(|c| c.end_us).collect::<Vec<_>>(), ttl_ms, end_us));
                }
                if let Some(ser) = final_hit {
                    if !stores.iter().any(|c| c.serial as i64 == ser) {
                        push("C10.hit_value", "threads", format!("key {}: the final hit returned serial {} which no call for that key produced", key, ser));
                    }
                    // (an entry exactly as old as the TTL may count as fresh or as expired)
                    // the value is stored some time between the end of the inner call and the end
                    // of the cache's own call (another thread may have moved the clock in between)
                    let stored_by = |serial: u64| notes(&log, "t_miss").find(|(_, _, ser)| *ser == serial as i64).map(|(r, _, _)| r.t_us);
                    let fresh_or_tie = stores.iter().any(|c| stored_by(c.serial).or(c.end_us).map(|e| end_us <= e + ttl_ms * 1000).unwrap_or(true));
                    if !fresh_or_tie {
                        push("C10.miss_expected", "threads", format!("key {}: the final lookup at {}us was a hit although every stored value is older than the TTL", key, end_us));
                    }
                }
            }
            // every hit during the run returns a value stored for that key
            for (_, key, ser) in notes(&log, "t_hit") {
                if !calls.iter().any(|c| c.key == key as u32 && c.serial as i64 == ser) {
                    push("C10.hit_value", "threads", format!("a hit for key {} returned serial {} which no call for that key produced", key, ser));
                }
            }
        }
        Kind::Bulkhead { max } => {
            for (_, id, code) in notes(&log, "t_result") {
                if code == 4 {
                    push("C07.admit_at_once", "threads", format!("request {} was not admitted although at most {} of {} slots can be in use", id, s.threads.len(), max));
                }
            }
            let expected: usize = s.threads.iter().map(|t| t.len()).sum();
            if out.panic.is_none() && calls.len() != expected {
                push("C07.admit_at_once", "threads", format!("{} of {} requests reached the inner service", calls.len(), expected));
            }
            if world::with(|w| w.max_in_flight[0]) > *max as i64 {
                push("C01.in_flight_le_max", "threads", format!("peak in-flight {} > max {}", world::with(|w| w.max_in_flight[0]), max));
            }
        }
        Kind::Reconnect { max_attempts } => {
            for (ti, ops) in s.threads.iter().enumerate() {
                for (k, op) in ops.iter().enumerate() {
                    let id = (ti * 100 + k) as u32;
                    let n = calls.iter().filter(|c| c.req == id).count();
                    let res = notes(&log, "t_result").find(|(_, a, _)| *a == id as i64).map(|(_, _, c)| c);
                    let failing = matches!(op, TOp::Call { err: true, .. });
                    if n > *max_attempts as usize + 1 {
                        push("C16.call_bound", "threads", format!("request {}: {} inner calls with max_attempts {} (other requests were being served on other threads)", id, n, max_attempts));
                    }
                    match (failing, res) {
                        (true, Some(1)) if n == *max_attempts as usize + 1 => {}
                        (false, Some(0)) if n == 1 => {}
                        (_, None) => {}
                        (_, r) => push("C16.result", "threads", format!("request {} ({}): {} inner calls, result code {:?}, max_attempts {}", id, if failing { "backend refuses every call" } else { "backend answers" }, n, r, max_attempts)),
                    }
                }
            }
        }
        Kind::Coalesce { .. } => {
            for (_, a, serial) in notes(&log, "t_result") {
                let (id, code) = (a / 10, a % 10);
                match code {
                    2 | 3 => push("C11.shared_result", "threads", format!("request {} got {} although no leader was dropped or panicked (inner calls: {:?})", id, if code == 2 { "LeaderCancelled" } else { "RecvError" }, calls.iter().map(|c| (c.req, c.key, c.how)).collect::<Vec<_>>())),
                    4 => push("C11.no_hang", "threads", format!("request {} never resolved", id)),
                    _ => {
                        // the result is that of a call made for the same key
                        let key = s.threads.iter().enumerate().flat_map(|(ti, ops)| ops.iter().enumerate().map(move |(k, o)| (ti * 100 + k, o))).find(|(rid, _)| *rid as i64 == id).map(|(_, o)| match o {
                            TOp::Call { key, .. } => *key,
                            _ => 0,
                        });
                        if !calls.iter().any(|c| c.serial as i64 == serial && Some(c.key) == key) {
                            push("C11.shared_result", "threads", format!("request {} (key {:?}) got the result of call serial {} which was not made for its key", id, key, serial));
                        }
                    }
                }
            }
            let peak = world::with(|w| w.max_in_flight_key);
            if peak > 1 {
                push("C11.one_in_flight_per_key", "threads", format!("{} inner calls in flight for one key", peak));
            }
        }
        Kind::Adaptive { limit } => {
            for (_, reported, truth) in notes(&log, "final_in_flight") {
                if reported != truth {
                    push("C13.in_flight_exact", "threads", format!("after {} threads finished all their calls in_flight() reports {} but {} calls are inside the inner service", s.threads.len(), reported, truth));
                }
            }
            for (_, id, truth) in notes(&log, "t_not_ready") {
                if truth < *limit as i64 {
                    push("C13.ready_iff_capacity", "threads", format!("request {}: poll_ready stayed Pending with {} calls inside the inner service and limit {}", id, truth, limit));
                }
            }
        }
        Kind::Breaker { permitted, .. } => {
            let tr: Vec<(u64, u8)> = notes(&log, "transition").map(|(r, _, to)| (r.seq, to as u8)).collect();
            for (k, (s0, to)) in tr.iter().enumerate() {
                let s1 = tr.get(k + 1).map(|x| x.0).unwrap_or(u64::MAX);
                let inside: Vec<_> = calls.iter().filter(|c| c.start_seq > *s0 && c.start_seq < s1).collect();
                // "new" calls: created after the breaker was observed open (a call that existed
                // before may, in an implementation that admits at call() time, still go through)
                let created_after = |req: u32| notes(&log, "t_created").find(|(_, a, _)| *a == req as i64).map(|(r, _, _)| r.seq > *s0).unwrap_or(true);
                let inside_new: Vec<_> = inside.iter().filter(|c| created_after(c.req)).collect();
                if *to == 1 && !inside_new.is_empty() {
                    push("C03.no_inner_while_open", "threads", format!("{} inner calls (requests {:?}) started after the breaker was observed open and before it left that state", inside.len(), inside.iter().map(|c| c.req).collect::<Vec<_>>()));
                }
                if *to == 2 {
                    if inside.len() > *permitted as usize {
                        push("C09.trials_le_permitted", "threads", format!("half-open: {} trial calls reached the inner service (requests {:?}), permitted_calls_in_half_open={}", inside.len(), inside.iter().map(|c| c.req).collect::<Vec<_>>(), permitted));
                    }
                    if inside.len() >= 1 {
                        nontrivial = nontrivial && true;
                    }
                }
            }
        }
    }
    let violations: Vec<Violation> = {
        let mut v: Vec<Violation> = violations.into_iter().filter(|v| v.rule.starts_with(prefix)).collect();
        v.sort();
        v.dedup_by(|a, b| a.rule == b.rule && a.class == b.class);
        v
    };
    let mut hasher = std::collections::hash_map::DefaultHasher::new();
    serde_json::to_string(s).unwrap().hash(&mut hasher);
    out.trace_hash.hash(&mut hasher);
    world::digest(&log).hash(&mut hasher);
    let mut probes = BTreeMap::new();
    probes.insert("service_on_threads_runs", 1);
    let _ = world::take();
    RunOutput {
        violations,
        faults: BTreeMap::new(),
        probes,
        steps: out.steps,
        vtime_us: 0,
        nontrivial,
        digest: hasher.finish(),
        trace: vec![],
        diverged: false,
        summary: json!({"scheduling_points": out.steps, "context_switches": out.switches, "inner_calls": calls.len()}),
    }
}

type OpFn = Box<dyn FnMut(u32, u32)>;

/// One shuttle thread per op list; each builds its own clone of the service through `mk`.
fn spawn_all(scn: &ScnT, mk: impl Fn() -> OpFn) {
    let mut handles = vec![];
    for (ti, ops) in scn.threads.iter().enumerate() {
        let ops = ops.clone();
        let f = SendIt(mk());
        handles.push(shuttle::thread::spawn(move || {
            let mut f = f;
            super::threads::set_tid(ti as u8);
            for (k, op) in ops.iter().enumerate() {
                match op {
                    TOp::Call { key, .. } => (f.0)((ti * 100 + k) as u32, *key),
                    TOp::Advance(ms) => advance(*ms),
                }
                super::threads::set_tid(ti as u8);
            }
        }));
    }
    for h in handles {
        let _ = h.join();
    }
}

#[allow(dead_code)]
fn _types(_: Resp, _: SimErr) {}
