//! C11: one inner call per key, result shared with every waiter, prompt failure and key reuse
//! when the leader is dropped or panics.

use super::common::*;
use crate::driver::{Prop, RunCtx, RunOutput, Tier};
use crate::exec::{run_sim, Hooks, LocalFut, Out, Status, TaskDef};
use crate::inner::{Behaviour, EndHow, Outcome, Req, SimErr, SimInner};
use crate::logq::{inner_calls, notes};
use crate::rng::Rng;
use crate::world;
use serde::{Deserialize, Serialize};
use serde_json::Value;
use std::time::Duration;
use tower::{Layer, Service, ServiceExt};
use tower_resilience_coalesce::{CoalesceError, CoalesceLayer};

#[derive(Clone, Debug, Serialize, Deserialize, PartialEq)]
pub struct Caller {
    pub start_ms: u64,
    /// key % 100 is what the key extractor sees; key / 100 selects one of two services built
    /// from the one layer (they must not coalesce with each other)
    pub key: u32,
    pub beh: Behaviour,
    pub cancel: CancelSpec,
    /// keep the finished call future alive (pinned, polled by reference) this long before dropping it
    pub hold_ms: u64,
    /// create the call future, keep it unpolled this long, then drop it without ever polling it
    #[serde(default)]
    pub drop_unpolled_after_ms: Option<u64>,
}

#[derive(Clone, Debug, Serialize, Deserialize, PartialEq)]
pub struct Scn {
    pub callers: Vec<Caller>,
    pub knobs: SchedKnobs,
    /// every caller clones the one owner handle when it arrives and drops its clone as soon as
    /// it has its response future (`oneshot` style); the owner itself is dropped right after the
    /// last arrival, so that only response futures are left alive
    #[serde(default)]
    pub owner_dropped: bool,
    /// all callers go through the one handle, which is never cloned (what the worker of a
    /// tower Buffer or `call_all` does)
    #[serde(default)]
    pub sole_handle: bool,
    /// callers whose inner call (if they lead) sends a request for another key back through the
    /// coalescing stack from inside `call()` and awaits it before it goes on (a resolver that
    /// needs a parent record)
    #[serde(default)]
    pub reentrant: Vec<u32>,
}

/// Many keys in flight together (any table inside the layer has to grow while entries are
/// live), then waiters that join the oldest calls.
fn gen_many_keys(rng: &mut Rng) -> Scn {
    let nkeys = rng.range(4, 10) as u32;
    let mut callers = vec![];
    for k in 1..=nkeys {
        callers.push(Caller {
            start_ms: *rng.pick(&[0u64, 0, 0, 1]),
            key: k,
            beh: Behaviour { lat_ms: *rng.pick(&[20u64, 30, 50]), out: if rng.chance(1, 5) { Outcome::Err(0) } else { Outcome::Ok }, yields: 0 },
            cancel: CancelSpec::Never,
            hold_ms: 0,
            drop_unpolled_after_ms: None,
        });
    }
    while callers.len() < 12 {
        callers.push(Caller {
            start_ms: *rng.pick(&[5u64, 10, 15]),
            key: rng.range(1, (nkeys as u64).min(3)) as u32,
            beh: Behaviour { lat_ms: 5, out: Outcome::Ok, yields: 0 },
            cancel: CancelSpec::Never,
            hold_ms: 0,
            drop_unpolled_after_ms: None,
        });
    }
    Scn { callers, knobs: SchedKnobs::gen(rng, false, 60), owner_dropped: false, sole_handle: false, reentrant: vec![] }
}

/// A long history on one service (anything an implementation does "every n-th registration"
/// needs one): a slow leader, some three hundred short requests on two other keys one after the
/// other, then requests that must join the slow leader's call, which is still running.
fn gen_long_history(rng: &mut Rng) -> Scn {
    let plain = |start_ms: u64, key: u32, lat_ms: u64| Caller {
        start_ms,
        key,
        beh: Behaviour { lat_ms, out: Outcome::Ok, yields: 0 },
        cancel: CancelSpec::Never,
        hold_ms: 0,
        drop_unpolled_after_ms: None,
    };
    let mut callers = vec![plain(0, 1, 200)];
    let n = rng.range(260, 300);
    for i in 0..n {
        callers.push(plain(1 + i / 2, 2 + (i % 2) as u32, 0));
    }
    callers.push(plain(n / 2 + 5, 1, 5));
    callers.push(plain(n / 2 + 6, 1, 5));
    Scn { callers, knobs: SchedKnobs::gen(rng, false, 60), owner_dropped: false, sole_handle: false, reentrant: vec![] }
}

pub fn gen(rng: &mut Rng) -> Scn {
    if rng.chance(1, 12) {
        return gen_many_keys(rng);
    }
    if rng.chance(1, 60) {
        return gen_long_history(rng);
    }
    let n = rng.range(2, 10) as usize;
    let nkeys = rng.range(1, 3) as u32;
    let faulty = rng.chance(2, 3);
    let two_services = rng.chance(1, 4);
    let mut callers = vec![];
    for _ in 0..n {
        let start_ms = *rng.pick(&[0u64, 0, 0, 1, 5, 5, 10, 10, 15, 20, 20, 30, 40, 50]);
        let beh = if faulty {
            gen_behaviour(rng, &[0, 5, 10, 10, 20, 20, 30, 50], 20, 8, 5)
        } else {
            gen_behaviour(rng, &[0, 5, 10, 10, 20, 20, 30, 50], 15, 0, 0)
        };
        callers.push(Caller {
            start_ms,
            key: rng.range(1, nkeys as u64) as u32 + if two_services && rng.chance(1, 2) { 100 } else { 0 },
            beh,
            cancel: if faulty { gen_cancel(rng, start_ms, 25) } else { CancelSpec::Never },
            hold_ms: if faulty && rng.chance(1, 6) { *rng.pick(&[5u64, 10, 25, 40]) } else { 0 },
            drop_unpolled_after_ms: if faulty && rng.chance(1, 10) { Some(*rng.pick(&[0u64, 5, 15])) } else { None },
        });
    }
    Scn {
        callers,
        knobs: SchedKnobs::gen(rng, faulty, 60),
        owner_dropped: !two_services && rng.chance(1, 5),
        sole_handle: false,
        reentrant: vec![],
    }
}

pub fn gen_any(rng: &mut Rng) -> Scn {
    let mut s = gen(rng);
    if !s.owner_dropped && s.callers.iter().all(|c| c.key < 100) && rng.chance(1, 5) {
        s.sole_handle = true;
    }
    if !s.owner_dropped && !s.sole_handle && rng.chance(1, 6) {
        let n = s.callers.len() as u64;
        s.reentrant = (0..rng.range(1, 3)).map(|_| rng.below(n) as u32).collect();
    }
    s
}

pub fn valid(s: &Scn) -> bool {
    if s.sole_handle && (s.owner_dropped || s.callers.iter().any(|c| c.key >= 100)) {
        return false;
    }
    s.callers.len() >= 1
        && (s.callers.len() <= 12 || (s.callers.len() <= 320 && s.reentrant.is_empty() && !s.owner_dropped && !s.sole_handle && s.callers.iter().all(|c| c.cancel == CancelSpec::Never && c.hold_ms == 0 && c.drop_unpolled_after_ms.is_none())))
        && (s.reentrant.is_empty() || (!s.owner_dropped && !s.sole_handle && s.reentrant.len() <= 4 && s.reentrant.iter().all(|i| (*i as usize) < s.callers.len())))
        && s.callers.iter().all(|c| c.start_ms <= 300 && c.key % 100 >= 1 && c.key % 100 <= 16 && c.key / 100 <= 1 && c.beh.lat_ms <= 200 && c.beh.yields <= 4 && c.hold_ms <= 100 && c.drop_unpolled_after_ms.map(|d| d <= 50).unwrap_or(true))
        && s.knobs.jumps.len() <= 3
        && s.knobs.jumps.iter().all(|j| j.0 <= 300 && j.1 <= 200)
        && !(s.owner_dropped && s.callers.iter().any(|c| c.key >= 100))
}

/// Key with a deliberately coarse `Hash` (all keys collide) and an exact `Eq`: legal, and an
/// implementation that identifies keys by their hash alone merges different keys.
#[derive(Clone, Debug, PartialEq, Eq)]
struct CKey(u32, bool);
impl std::hash::Hash for CKey {
    fn hash<H: std::hash::Hasher>(&self, state: &mut H) {
        // .1: an ordinary, exact hash instead (scenarios with many keys: a table that mislays
        // entries when it grows would not show if all keys shared one hash)
        if self.1 {
            self.0.hash(state)
        } else {
            0u32.hash(state)
        }
    }
}

pub fn run(s: &Scn, ctx: &mut RunCtx) -> RunOutput {
    world::reset();
    let mut cfg = s.knobs.cfg(ctx, 3000, 0);
    cfg.max_steps = 60_000; // busy-polling waiters behind a never-completing leader
    let scn = s.clone();
    let setup = move || {
        world::with(|w| {
            for (i, c) in scn.callers.iter().enumerate() {
                w.script.by_req.insert(((c.key / 100) as u8, i as u32), vec![c.beh]);
            }
        });
        let exact_hash = scn.callers.iter().any(|c| c.key % 100 > 4);
        let layer = CoalesceLayer::new(move |r: &Req| CKey(r.key % 100, exact_hash));
        let base = layer.layer(SimInner::new(0));
        let base_b = layer.layer(SimInner::new(1));
        let sole = scn.sole_handle;
        let lazy = scn.owner_dropped;
        let (owner, base, base_b) = if sole {
            // the one and only handle: nothing is cloned, the sibling service does not exist
            drop(base_b);
            (std::rc::Rc::new(std::cell::RefCell::new(Some(base))), None, None)
        } else {
            (std::rc::Rc::new(std::cell::RefCell::new(Some(base.clone()))), Some(base), Some(base_b))
        };
        let taken = std::rc::Rc::new(std::cell::Cell::new(0usize));
        let n_callers = scn.callers.len();
        if !scn.reentrant.is_empty() {
            // nested requests: id 500+i, a key of their own (60), through a clone of service 0
            world::with(|w| {
                for i in &scn.reentrant {
                    let svc = (scn.callers[*i as usize].key / 100) as u8;
                    w.script.nested.insert((svc, *i), Req { id: 500 + *i, key: 60 });
                    w.script.by_req.insert((0, 500 + *i), vec![Behaviour { lat_ms: 5, out: Outcome::Ok, yields: 0 }]);
                }
            });
            let proto = base.as_ref().unwrap().clone();
            crate::inner::NESTED.with(|n| {
                *n.borrow_mut() = Some(std::rc::Rc::new(move |r: Req| {
                    let mut s = proto.clone();
                    let wk = std::task::Waker::noop();
                    match s.poll_ready(&mut std::task::Context::from_waker(wk)) {
                        std::task::Poll::Ready(Ok(())) => {
                            let f = s.call(r);
                            Some(Box::pin(async move {
                                let _ = f.await;
                                drop(s);
                            }) as crate::inner::NestedFut)
                        }
                        _ => None,
                    }
                }))
            });
        }
        let mut defs = vec![];
        for (i, c) in scn.callers.iter().enumerate() {
            let mut early = if lazy || sole { None } else { Some(if c.key / 100 == 1 { base_b.as_ref().unwrap().clone() } else { base.as_ref().unwrap().clone() }) };
            let owner = owner.clone();
            let taken = taken.clone();
            let req = Req { id: i as u32, key: c.key };
            let hold = c.hold_ms;
            let drop_unpolled = c.drop_unpolled_after_ms;
            let make: Box<dyn FnOnce() -> LocalFut> = Box::new(move || {
                Box::pin(async move {
                    let mut own = match early.take() {
                        Some(s) => Some(s),
                        None if sole => None,
                        None => Some(owner.borrow().as_ref().expect("owner handle alive at every arrival").clone()),
                    };
                    let ready = match own.as_mut() {
                        Some(s) => s.ready().await.map(|_| ()),
                        None => std::future::poll_fn(|cx| owner.borrow_mut().as_mut().unwrap().poll_ready(cx)).await,
                    };
                    let r: Result<_, CoalesceError<SimErr>> = match ready {
                        Err(e) => Err(e),
                        Ok(()) => {
                            let mut f = Box::pin(match own.as_mut() {
                                Some(s) => s.call(req),
                                None => owner.borrow_mut().as_mut().unwrap().call(req),
                            });
                            if lazy {
                                drop(own.take());
                                taken.set(taken.get() + 1);
                                if taken.get() == n_callers {
                                    // the last arrival: the owner goes away, only futures stay
                                    world::fault("owner_handle_dropped");
                                    *owner.borrow_mut() = None;
                                }
                            }
                            if let Some(d) = drop_unpolled {
                                world::fault("drop_unpolled");
                                if d > 0 {
                                    tokio::time::sleep(Duration::from_millis(d)).await;
                                }
                                drop(f);
                                world::note("dropped_unpolled", i as i64, 0);
                                return Out::err("DroppedUnpolled", None);
                            }
                            let r = f.as_mut().await;
                            world::note("result", i as i64, r.is_ok() as i64);
                            if hold > 0 {
                                world::fault("hold_finished_future");
                                tokio::time::sleep(Duration::from_millis(hold)).await;
                            }
                            drop(f);
                            r
                        }
                    };
                    match r {
                        Ok(x) => Out::ok(x),
                        Err(CoalesceError::Service(e)) => Out::err("Service", Some(e)),
                        Err(CoalesceError::LeaderCancelled) => Out::err("LeaderCancelled", None),
                        Err(CoalesceError::RecvError) => Out::err("RecvError", None),
                    }
                })
            });
            defs.push(TaskDef { start_ms: c.start_ms, make, cancel: c.cancel.to_cancel() });
        }
        drop(base);
        drop(base_b);
        drop(owner);
        defs
    };
    let mut step = |_k| {
        let m = world::with(|w| w.in_flight_key.values().copied().max().unwrap_or(0));
        if m > 1 {
            world::violation("C11.one_in_flight_per_key", "", format!("{} inner calls in flight for one key", m));
        }
    };
    let mut idle = || {};
    let rep = run_sim(cfg, &mut ctx.chooser, setup, Hooks { step: &mut step, idle: &mut idle });
    crate::inner::NESTED.with(|n| *n.borrow_mut() = None);
    let log = world::with(|w| std::mem::take(&mut w.log));
    let calls = inner_calls(&log);
    let jump = s.knobs.total_jump() * 1000;
    // per key: never two in flight
    for c in calls.iter() {
        let others = calls
            .iter()
            .filter(|d| d.key == c.key && d.serial != c.serial && d.start_seq < c.start_seq && d.end_seq.map(|e| e > c.start_seq).unwrap_or(true))
            .count();
        if others >= 1 {
            world::violation("C11.one_in_flight_per_key", "", format!("inner call for key {} (request {}) started at {}us while another call for that key was in flight", c.key, c.req, c.start_us));
        }
    }
    // result instants
    let result_at: std::collections::HashMap<u32, (u64, u64)> = notes(&log, "result").map(|(r, a, _)| (a as u32, (r.seq, r.t_us))).collect();
    let mut had_waiter = false;
    let mut leader_cancelled_with_waiters = false;
    for (i, t) in rep.tasks.iter().enumerate() {
        if t.first_poll_seq == 0 {
            continue;
        }
        let c = &s.callers[i];
        let fp = t.first_poll_seq;
        let mine: Vec<_> = calls.iter().filter(|x| x.req == i as u32).collect();
        // the leader in flight for my key at my arrival (if any)
        let leader = calls
            .iter()
            .filter(|d| d.key == c.key && d.req != i as u32 && d.start_seq < fp && d.end_seq.map(|e| e > fp).unwrap_or(true))
            .last();
        let got = result_at.get(&(i as u32)).copied();
        // a caller that dropped its own call future unpolled has no result to compare
        let out = match t.status {
            Status::Resolved => t.out.clone().filter(|o| o.err != Some("DroppedUnpolled")),
            _ => None,
        };
        match leader {
            Some(l) => {
                had_waiter = true;
                if !mine.is_empty() {
                    world::violation("C11.shared_result", "own_call", format!("request {} arrived while the call of request {} (key {}) was in flight but made its own inner call", i, l.req, c.key));
                    continue;
                }
                // what must the waiter get
                if let Some(o) = &out {
                    let good = match l.how {
                        Some(EndHow::Ok) => o.ok.as_ref().map(|r| r.serial == l.serial).unwrap_or(false),
                        Some(EndHow::Err(k)) => o.err == Some("Service") && o.inner.as_ref().map(|e| e.serial == l.serial && e.kind == k).unwrap_or(false),
                        Some(EndHow::Dropped) | Some(EndHow::Panicked) => o.err == Some("LeaderCancelled"),
                        None => false,
                    };
                    if !good {
                        world::violation(
                            "C11.shared_result",
                            if o.err == Some("LeaderCancelled") { "spurious_leader_cancelled" } else { "wrong_result" },
                            format!("waiter {} (key {}) joined leader call serial {} which ended {:?}, but got {:?}", i, c.key, l.serial, l.how, o),
                        );
                    }
                    if matches!(l.how, Some(EndHow::Dropped) | Some(EndHow::Panicked)) {
                        leader_cancelled_with_waiters = true;
                    }
                    // promptness: within one quantum (+ jump) of the leader's end
                    if let (Some((_, gt)), Some(le)) = (got, l.end_us) {
                        if gt > le + 2000 + jump {
                            world::violation("C11.prompt_failure", "", format!("waiter {}: leader call ended at {}us, waiter resolved at {}us", i, le, gt));
                        }
                        if gt < le {
                            world::violation("C11.shared_result", "before_leader", format!("waiter {} resolved at {}us before the leader's call ended at {}us", i, gt, le));
                        }
                    }
                } else if t.status == Status::Unresolved {
                    if l.end_seq.is_some() {
                        world::violation("C11.no_hang", "waiter", format!("waiter {} (key {}) never resolved although the leader's call ended {:?} at {:?}us", i, c.key, l.how, l.end_us));
                    }
                } else if t.status == Status::Panicked {
                    world::violation("C11.shared_result", "panic", format!("waiter {} panicked: {:?}", i, t.panic_msg));
                } else if t.status == Status::Cancelled {
                    world::probe("waiter_cancelled");
                }
            }
            None => {
                // fresh leader: must call inner at once (key usable), result is its own
                let started_now = mine.iter().any(|m| m.start_us == t.first_poll_us && m.start_seq > fp);
                if !started_now {
                    // a previous holder of this key that ended before my arrival?
                    let prev = calls.iter().filter(|d| d.key == c.key && d.req != i as u32 && d.end_seq.map(|e| e < fp).unwrap_or(false)).last();
                    world::violation(
                        "C11.key_reusable",
                        "",
                        format!("request {} (key {}) arrived at {}us with no call in flight for its key (previous: {:?}) but did not start an inner call", i, c.key, t.first_poll_us, prev.map(|p| (p.req, p.how, p.end_us))),
                    );
                    continue;
                }
                if mine.len() > 1 {
                    world::violation("C11.shared_result", "twice", format!("request {} made {} inner calls", i, mine.len()));
                }
                let m = mine[0];
                if let Some(o) = &out {
                    let good = match m.how {
                        Some(EndHow::Ok) => o.ok.as_ref().map(|r| r.serial == m.serial && r.req == i as u32).unwrap_or(false),
                        Some(EndHow::Err(k)) => o.err == Some("Service") && o.inner.as_ref().map(|e| e.serial == m.serial && e.kind == k).unwrap_or(false),
                        _ => false,
                    };
                    if !good {
                        world::violation("C11.shared_result", "leader_result", format!("leader {}: own call ended {:?} but it got {:?}", i, m.how, o));
                    }
                }
                match t.status {
                    Status::Unresolved if c.beh.out != Outcome::Never => {
                        world::violation("C11.no_hang", "leader", format!("leader {} never resolved", i));
                    }
                    Status::Panicked if !matches!(c.beh.out, Outcome::Panic | Outcome::PanicInCall) => {
                        world::violation("C11.shared_result", "panic", format!("leader {} panicked: {:?}", i, t.panic_msg));
                    }
                    Status::Cancelled => world::probe("leader_cancelled"),
                    Status::Panicked => world::probe("leader_panicked"),
                    _ => {}
                }
            }
        }
    }
    if leader_cancelled_with_waiters {
        world::probe("leader_gone_with_waiters");
    }
    let mut w = world::take();
    w.log = log;
    finish(w, ctx, &rep, "C11", had_waiter, outcome_summary(&rep))
}

pub struct C11;

impl Prop for C11 {
    fn id(&self) -> &'static str {
        "C11"
    }
    fn supplement(&self, tier: Tier, seed: u64) -> (Vec<crate::world::Violation>, Value) {
        super::common::msim_supplement("C11", "coalesce", tier, seed)
    }
    fn gen(&self, rng: &mut Rng, _t: Tier) -> Value {
        if rng.chance(1, 8) {
            // one run in eight drives the service from several threads (engine B)
            return serde_json::to_value(super::svcthreads::gen_coalesce(rng)).unwrap();
        }
        serde_json::to_value(gen_any(rng)).unwrap()
    }
    fn valid(&self, v: &Value) -> bool {
        if super::svcthreads::is_threads(v) {
            return super::svcthreads::valid_json(v) && matches!(parse::<super::svcthreads::ScnT>(v).map(|s| s.kind), Some(super::svcthreads::Kind::Coalesce { .. }));
        }
        parse::<Scn>(v).map(|s| valid(&s)).unwrap_or(false)
    }
    fn run(&self, v: &Value, ctx: &mut RunCtx) -> RunOutput {
        if super::svcthreads::is_threads(v) {
            return super::svcthreads::run_json(v, ctx, "C11");
        }
        run(&parse::<Scn>(v).unwrap(), ctx)
    }
    fn engine(&self) -> &'static str {
        "asim + tsim (shuttle)"
    }
    fn runs(&self, t: Tier) -> u64 {
        match t {
            Tier::Quick => 20_000,
            Tier::Thorough => 3_000_000,
        }
    }
    fn nontrivial_rule(&self) -> &'static str {
        "scenario = 2-10 callers over 1-3 keys (Hash coarser than Eq; one run in twelve: 4-10 keys in flight together with an exact hash, then waiters on the oldest; one in six: leaders whose inner call sends a request for another key back through the coalescing stack from inside call()) on clones of one CoalesceService (optionally a second service built from the same layer; optionally oneshot-style callers with the owner handle dropped after the last arrival; or all callers on the one never-cloned handle), One run in eight is a thread scenario (engine B): 2-4 shuttle threads drive clones of the real service with a no-op waker; every acquisition of a library lock, every operation on a library atomic and every verif::yield_async site is a scheduling point of the seeded thread scheduler; the clock is a paused tokio clock moved by Advance operations. lattice arrivals/latencies, ok/error/panic/never leaders, cancels of leaders and waiters at chosen polls/instants, finished futures kept alive before being dropped, clock jumps; waiters busy-poll and are handled as spinners (1ms virtual quantum). Non-trivial: some request arrived while a call for its key was in flight. Distinct = distinct event-log digest."
    }
    fn real_components(&self) -> Vec<&'static str> {
        vec!["tower-resilience-coalesce (CoalesceService, CoalesceFuture incl. Drop, InFlight map)", "tokio broadcast channel, parking_lot, hashbrown"]
    }
    fn stub_components(&self) -> Vec<&'static str> {
        vec!["inner service (SimInner with per-key in-flight counter)"]
    }
    fn assumptions(&self) -> Vec<&'static str> {
        vec!["'promptly' = within one spinner quantum (1ms) plus one poll, plus the injected clock jump in jump runs"]
    }
}
