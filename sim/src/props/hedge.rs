//! C12: hedge starts a bounded number of attempts, spaced by the delay, returns the first
//! success as soon as it exists and reports all-failed only when every attempt failed.

use super::common::*;
use crate::driver::{Prop, RunCtx, RunOutput, Tier};
use crate::exec::{run_sim, Hooks, LocalFut, Out, Status, TaskDef};
use crate::inner::{Behaviour, Outcome, Req, SimErr, SimInner};
use crate::logq::inner_calls;
use crate::rng::Rng;
use crate::world;
use serde::{Deserialize, Serialize};
use serde_json::Value;
use std::time::Duration;
use tower::{Layer, Service, ServiceExt};
use tower_resilience_hedge::{HedgeError, HedgeEvent, HedgeLayer};

#[derive(Clone, Debug, Serialize, Deserialize, PartialEq)]
pub enum Delay {
    /// microseconds, below one millisecond (still latency mode, not parallel mode)
    FixedUs(u64),
    Fixed(u64),
    Immediate,
    /// per-attempt table (attempt 1.. ) in ms; entries may be zero (only the rules that hold
    /// whatever a zero entry means are checked then)
    Table(Vec<u64>),
    /// a delay function whose answers change at `switch_ms` (e.g. one that follows a latency
    /// percentile): what counts is what it says when it is asked
    Phased { before: Vec<u64>, after: Vec<u64>, switch_ms: u64 },
}

#[derive(Clone, Debug, Serialize, Deserialize, PartialEq)]
pub struct Call {
    pub start_ms: u64,
    pub attempts: Vec<Behaviour>,
}

#[derive(Clone, Debug, Serialize, Deserialize, PartialEq)]
pub struct Scn {
    pub max: u32,
    pub delay: Delay,
    pub calls: Vec<Call>,
    /// clones of the inner service need this long before they are ready (0 = ready at once)
    #[serde(default)]
    pub clone_warmup_ms: u64,
    pub knobs: SchedKnobs,
    /// builder call order: bit 0 = max_hedged_attempts after the delay setting, bit 1 = another
    /// kind of delay setting is made first (the last call wins)
    #[serde(default)]
    pub order: u8,
    /// the service is built while another (never driven) runtime's context is entered
    #[serde(default)]
    pub built_elsewhere: bool,
    /// (event kind: 0 HedgeStarted / 1 PrimaryStarted, n, ms): the listener blocks the thread for
    /// `ms` at the n-th event of that kind (virtual time passes inside the poll)
    #[serde(default)]
    pub block: Option<(u8, u8, u64)>,
}

/// Many attempts whose outcomes arrive together (more than any small internal queue holds).
fn gen_many(rng: &mut Rng) -> Scn {
    let max = *rng.pick(&[17u32, 20, 24]);
    let delay = if rng.chance(1, 2) { Delay::Immediate } else { Delay::Fixed(*rng.pick(&[0u64, 1, 2])) };
    // completion instant common to all attempts (latency shrinks with the attempt's start)
    let done_at = *rng.pick(&[50u64, 100]);
    let step = match &delay {
        Delay::Fixed(d) => *d,
        _ => 0,
    };
    let lucky = if rng.chance(1, 2) { Some(rng.below(max as u64) as usize) } else { None };
    let attempts = (0..max as usize)
        .map(|j| Behaviour {
            lat_ms: done_at.saturating_sub(step * j as u64),
            out: if Some(j) == lucky { Outcome::Ok } else { Outcome::Err(0) },
            yields: 0,
        })
        .collect();
    Scn {
        max,
        delay,
        calls: vec![Call { start_ms: 0, attempts }],
        clone_warmup_ms: 0,
        knobs: SchedKnobs::gen(rng, false, 60),
        order: rng.below(4) as u8,
        built_elsewhere: false,
        block: None,
    }
}

/// "As many attempts as it takes": max_hedged_attempts = usize::MAX (written u32::MAX in the
/// scenario), latency mode, the scripted attempts end with a success (which the stub repeats).
fn gen_unbounded(rng: &mut Rng) -> Scn {
    let delay = match rng.below(3) {
        0 => Delay::FixedUs(*rng.pick(&[500u64, 800])),
        1 => Delay::Fixed(*rng.pick(&[5u64, 10, 20])),
        _ => Delay::Table((0..4).map(|_| *rng.pick(&[1u64, 5, 10])).collect()),
    };
    let n = rng.range(1, 2) as usize;
    let calls = (0..n)
        .map(|_| {
            let k = rng.range(0, 3) as usize;
            let mut attempts: Vec<Behaviour> = (0..k).map(|_| Behaviour { lat_ms: *rng.pick(&[0u64, 5, 10, 30]), out: Outcome::Err(0), yields: 0 }).collect();
            attempts.push(Behaviour { lat_ms: *rng.pick(&[0u64, 5, 10, 30]), out: Outcome::Ok, yields: 0 });
            Call { start_ms: *rng.pick(&[0u64, 5]), attempts }
        })
        .collect();
    Scn { max: u32::MAX, delay, calls, clone_warmup_ms: 0, knobs: SchedKnobs::gen(rng, false, 60), order: rng.below(4) as u8, built_elsewhere: false, block: None }
}

fn gen_phased(rng: &mut Rng) -> Scn {
    let max = rng.range(2, 4) as u32;
    let before: Vec<u64> = (0..4).map(|_| *rng.pick(&[5u64, 10, 20])).collect();
    let after: Vec<u64> = (0..4).map(|_| *rng.pick(&[40u64, 80, 150])).collect();
    let (before, after) = if rng.chance(1, 2) { (before, after) } else { (after, before) };
    let slow = |rng: &mut Rng| Behaviour { lat_ms: *rng.pick(&[200u64, 200, 30]), out: if rng.chance(2, 3) { Outcome::Ok } else { Outcome::Err(0) }, yields: 0 };
    let calls = vec![Call { start_ms: 0, attempts: (0..max).map(|_| slow(rng)).collect() }, Call { start_ms: 500, attempts: (0..max).map(|_| slow(rng)).collect() }];
    Scn { max, delay: Delay::Phased { before, after, switch_ms: 400 }, calls, clone_warmup_ms: 0, knobs: SchedKnobs::gen(rng, false, 60), order: rng.below(2) as u8, built_elsewhere: false, block: None }
}

pub fn gen(rng: &mut Rng) -> Scn {
    if rng.chance(1, 12) {
        return gen_many(rng);
    }
    if rng.chance(1, 14) {
        return gen_phased(rng);
    }
    if rng.chance(1, 14) {
        return gen_unbounded(rng);
    }
    let max = rng.range(1, 4) as u32;
    let delay = match rng.below(7) {
        6 => Delay::Table((0..4).map(|k| if k == 0 { *rng.pick(&[0u64, 5, 10, 10]) } else { *rng.pick(&[0u64, 0, 5, 10]) }).collect()),
        5 => Delay::FixedUs(*rng.pick(&[1u64, 500, 800])),
        0 => Delay::Immediate,
        1 => Delay::Fixed(0),
        // u64::MAX stands for Duration::MAX ("never hedge" written as a delay)
        2 | 3 => Delay::Fixed(*rng.pick(&[5u64, 10, 10, 10, 20, 20, u64::MAX])),
        _ => Delay::Table((0..4).map(|_| *rng.pick(&[1u64, 5, 10, 20, 30])).collect()),
    };
    let n = rng.range(1, 3) as usize;
    let lats = [0u64, 0, 1, 5, 10, 10, 15, 20, 30, 50, 100];
    let mut calls = vec![];
    for _ in 0..n {
        let style = rng.below(4);
        let attempts = (0..max)
            .map(|_| {
                let ok = match style {
                    0 => true,
                    1 => false,
                    _ => rng.chance(1, 2),
                };
                Behaviour {
                    lat_ms: *rng.pick(&lats),
                    out: if ok { Outcome::Ok } else { Outcome::Err(rng.below(2) as u8) },
                    yields: *rng.pick(&[0u8, 0, 1, 2]),
                }
            })
            .collect();
        calls.push(Call {
            start_ms: *rng.pick(&[0u64, 0, 5, 10]),
            attempts,
        });
    }
    Scn {
        max,
        delay,
        calls,
        clone_warmup_ms: if rng.chance(1, 4) { *rng.pick(&[5u64, 30, 200]) } else { 0 },
        knobs: SchedKnobs::gen(rng, true, 60),
        order: if rng.chance(1, 2) { rng.below(4) as u8 } else { 0 },
        built_elsewhere: rng.chance(1, 8),
        block: if rng.chance(1, 6) { Some((*rng.pick(&[0u8, 0, 0, 1]), rng.range(1, 3) as u8, *rng.pick(&[3u64, 10, 20, 45, 150]))) } else { None },
    }
}

pub fn valid(s: &Scn) -> bool {
    let unbounded = s.max == u32::MAX;
    s.max >= 1
        && (s.max <= 24 || unbounded)
        && (!unbounded
            || (s.clone_warmup_ms == 0
                && s.knobs.jumps.is_empty()
                && s.calls.iter().all(|c| !c.attempts.is_empty() && c.attempts.len() <= 4 && c.attempts.last().map(|b| b.out == Outcome::Ok).unwrap_or(false))
                && match &s.delay {
                    Delay::Fixed(d) => *d >= 1 && *d <= 100,
                    Delay::FixedUs(_) => true,
                    Delay::Immediate => false,
                    Delay::Table(t) => t.iter().all(|d| *d >= 1),
                    Delay::Phased { .. } => false,
                }))
        && !s.calls.is_empty()
        && s.calls.len() <= 4
        && s.calls.iter().all(|c| {
            c.start_ms <= 600
                && (unbounded || c.attempts.len() == s.max as usize)
                && c.attempts.iter().all(|b| b.lat_ms <= 200 && b.yields <= 4 && matches!(b.out, Outcome::Ok | Outcome::Err(0) | Outcome::Err(1)))
        })
        && match &s.delay {
            Delay::Fixed(d) => *d <= 100 || *d == u64::MAX,
            Delay::FixedUs(d) => *d >= 1 && *d < 1000,
            Delay::Immediate => true,
            Delay::Table(t) => t.len() >= 4 && t.len() <= 6 && t.iter().all(|d| *d <= 100),
            Delay::Phased { before, after, switch_ms } => before.len() == 4 && after.len() == 4 && before.iter().chain(after.iter()).all(|d| *d >= 1 && *d <= 200) && *switch_ms <= 1000 && s.knobs.jumps.is_empty() && s.clone_warmup_ms == 0,
        }
        && s.clone_warmup_ms <= 500
        && s.block.map(|b| b.0 <= 1 && b.1 >= 1 && b.1 <= 8 && b.2 >= 1 && b.2 <= 500 && !unbounded && !matches!(s.delay, Delay::Phased { .. })).unwrap_or(true)
        && s.order <= 3
        && s.knobs.jumps.len() <= 3
        && s.knobs.jumps.iter().all(|j| j.0 <= 300 && j.1 <= 200)
}

/// Longest time that can have passed between the spawn of an attempt and its first poll at
/// `first_run_us`: the chain of clock movements (not made by task `own`) that ends exactly there.
fn spawn_slack(log: &[world::Rec], own: i32, first_run_us: u64) -> u64 {
    let mut cur = first_run_us;
    loop {
        let prev = log.iter().rev().find_map(|r| match r.ev {
            world::Ev::Jump { ms } if ms > 0 && r.t_us + ms * 1000 == cur && r.task != own => Some(r.t_us),
            _ => None,
        });
        match prev {
            Some(t) => cur = t,
            None => return first_run_us - cur,
        }
    }
}

thread_local! {
    static BLOCK_SEEN: std::cell::Cell<u8> = const { std::cell::Cell::new(0) };
}

/// configured delay before attempt `attempt`, in microseconds
fn delay_for(d: &Delay, attempt: usize) -> u64 {
    match d {
        Delay::FixedUs(x) => return *x,
        _ => {}
    }
    (match d {
        Delay::FixedUs(_) => 0,
        Delay::Fixed(x) => *x,
        Delay::Immediate => 0,
        Delay::Table(t) => t[(attempt - 1).min(t.len() - 1)],
        // (callers of this function handle Phased themselves)
        Delay::Phased { before, after, .. } => before[(attempt - 1).min(3)].min(after[(attempt - 1).min(3)]),
    })
    .saturating_mul(1000)
}

pub fn run(s: &Scn, ctx: &mut RunCtx) -> RunOutput {
    world::reset();
    let cfg = s.knobs.cfg(ctx, 5000, 300);
    let scn = s.clone();
    let setup = move || {
        world::with(|w| {
            for (i, c) in scn.calls.iter().enumerate() {
                w.script.by_req.insert((0, i as u32), c.attempts.clone());
            }
            if scn.clone_warmup_ms > 0 {
                w.script.clone_warmup_ms.insert(0, scn.clone_warmup_ms);
            }
        });
        let mut b = HedgeLayer::builder();
        if scn.order & 2 != 0 {
            // decoy, overwritten below
            b = match &scn.delay {
                Delay::Immediate | Delay::Fixed(0) => b.delay(Duration::from_millis(3)).max_hedged_attempts(count(scn.max).saturating_add(1)),
                Delay::Table(_) | Delay::Phased { .. } => b.no_delay(),
                _ => b.delay_fn(|_| Duration::ZERO).max_hedged_attempts(1),
            };
        }
        if scn.order & 1 == 0 {
            b = b.max_hedged_attempts(count(scn.max));
        }
        b = match &scn.delay {
            Delay::Fixed(d) => b.delay(if *d == u64::MAX { Duration::MAX } else { Duration::from_millis(*d) }),
            Delay::FixedUs(d) => b.delay(Duration::from_micros(*d)),
            Delay::Immediate => b.no_delay(),
            Delay::Table(t) => {
                let t = t.clone();
                b.delay_fn(move |a| Duration::from_millis(t[(a.max(1) - 1).min(t.len() - 1)]))
            }
            Delay::Phased { before, after, switch_ms } => {
                let (before, after, switch_us) = (before.clone(), after.clone(), *switch_ms * 1000);
                b.delay_fn(move |a| {
                    let t = if world::now_us() < switch_us { &before } else { &after };
                    Duration::from_millis(t[(a.max(1) - 1).min(3)])
                })
            }
        };
        if scn.order & 1 != 0 {
            b = b.max_hedged_attempts(count(scn.max));
        }
        if let Some((kind, nth, ms)) = scn.block {
            // (listeners must be Send + Sync: the counter lives in a thread-local of the run)
            BLOCK_SEEN.with(|c| c.set(0));
            b = b.on_event(tower_resilience_core::FnListener::new(move |e: &HedgeEvent| {
                let hit = match e {
                    HedgeEvent::HedgeStarted { .. } => kind == 0,
                    HedgeEvent::PrimaryStarted { .. } => kind == 1,
                    _ => false,
                };
                if hit {
                    let n = BLOCK_SEEN.with(|c| {
                        c.set(c.get().saturating_add(1));
                        c.get()
                    });
                    if n == nth {
                        world::block_for(ms);
                    }
                }
            }));
        }
        let layer = b.build();
        let base = if scn.built_elsewhere { built_in_foreign_runtime(|| layer.layer(SimInner::new(0))) } else { layer.layer(SimInner::new(0)) };
        let mut defs = vec![];
        for (i, c) in scn.calls.iter().enumerate() {
            let svc = base.clone();
            let req = Req { id: i as u32, key: 0 };
            let make: Box<dyn FnOnce() -> LocalFut> = Box::new(move || {
                Box::pin(async move {
                    let mut svc = svc;
                    let r: Result<_, HedgeError<SimErr>> = match svc.ready().await {
                        Err(e) => Err(e),
                        Ok(sv) => sv.call(req).await,
                    };
                    match r {
                        Ok(x) => Out::ok(x),
                        Err(HedgeError::AllAttemptsFailed(e)) => Out::err("AllAttemptsFailed", Some(e)),
                        Err(HedgeError::Inner(e)) => Out::err("Inner", Some(e)),
                    }
                })
            });
            defs.push(TaskDef { start_ms: c.start_ms, make, cancel: crate::exec::Cancel::Never });
        }
        defs
    };
    let mut step = |_k| {};
    let mut idle = || {};
    let rep = run_sim(cfg, &mut ctx.chooser, setup, Hooks { step: &mut step, idle: &mut idle });
    drop_foreign_runtime();
    let log = world::with(|w| std::mem::take(&mut w.log));
    let calls = inner_calls(&log);
    // time that passed inside a blocking listener counts like a clock jump for the upper bounds
    let jump = (s.knobs.total_jump() + world::with(|w| w.blocked_ms)) * 1000;
    let parallel = matches!(s.delay, Delay::Immediate | Delay::Fixed(0));
    let mut nontrivial = false;
    for (i, t) in rep.tasks.iter().enumerate() {
        if t.first_poll_seq == 0 {
            continue;
        }
        let c = &s.calls[i];
        let mine: Vec<_> = calls.iter().filter(|x| x.req == i as u32).collect();
        let max = count(s.max);
        if mine.len() > max {
            world::violation("C12.max_attempts", "", format!("hedged call {} started {} inner calls, max_hedged_attempts {}", i, mine.len(), max));
        }
        if mine.len() >= 2 {
            nontrivial = true;
        }
        // spacing
        for j in 1..mine.len() {
            if parallel {
                // hedges run on fresh clones, which may need their warm-up first
                if mine[j].start_us != mine[0].start_us + s.clone_warmup_ms * 1000 && jump == 0 {
                    world::violation("C12.spacing", "parallel", format!("call {}: parallel mode but attempt {} started at {}us, primary at {}us", i, j, mine[j].start_us, mine[0].start_us));
                }
            } else if s.clone_warmup_ms > 0 && jump > 0 {
                // a clock jump can end the warm-up of two hedge clones on one instant
            } else if matches!(&s.delay, Delay::Table(t) if t[0] == 0) {
                // a delay function whose first answer is zero selects parallel mode (everything
                // at once); whether its later answers still count is not documented
            } else {
                let d = match &s.delay {
                    // asked some time between the start of the call and the start of this attempt
                    Delay::Phased { before, after, switch_ms } => {
                        let sw = *switch_ms * 1000;
                        let (b, a) = (before[(j - 1).min(3)] * 1000, after[(j - 1).min(3)] * 1000);
                        if mine[j].start_us < sw {
                            b
                        } else if t.first_poll_us >= sw {
                            a
                        } else {
                            a.min(b)
                        }
                    }
                    other => delay_for(other, j),
                };
                // "started" is the instant the library spawned the attempt; the inner call is
                // logged when the spawned task first runs. The two differ only if the clock was
                // moved in between (a clock jump, or another call's listener blocking the thread:
                // the runtime is never idle while a spawned task is queued). Time that this
                // call's own listener blocked does not count: it runs before the spawn.
                let slack = spawn_slack(&log, i as i32, mine[j - 1].start_us);
                if mine[j].start_us.saturating_add(slack) < mine[j - 1].start_us.saturating_add(d) {
                    world::violation("C12.spacing", "too_early", format!("call {}: attempt {} started at {}us, previous at {}us, configured delay {}us", i, j, mine[j].start_us, mine[j - 1].start_us, d));
                }
            }
        }
        // scripted completion instants of the started attempts
        let comp: Vec<(u64, bool, u64)> = mine
            .iter()
            .enumerate()
            .map(|(j, m)| {
                let b = c.attempts[j.min(c.attempts.len() - 1)];
                (m.start_us + b.lat_ms * 1000, b.out == Outcome::Ok, m.serial)
            })
            .collect();
        match t.status {
            Status::Resolved => {
                let o = t.out.as_ref().unwrap();
                match (&o.ok, o.err) {
                    (Some(r), _) => {
                        let succ: Vec<_> = comp.iter().filter(|x| x.1).collect();
                        match succ.iter().map(|x| x.0).min() {
                            None => world::violation("C12.first_success", "no_success", format!("call {} returned Ok(serial {}) but no started attempt succeeds", i, r.serial)),
                            Some(tmin) => {
                                let time_ok = if jump == 0 { t.end_us == tmin } else { t.end_us >= tmin && t.end_us <= tmin + jump };
                                if !time_ok {
                                    world::violation("C12.first_success", "late", format!("call {}: first success available at {}us, caller got it at {}us", i, tmin, t.end_us));
                                }
                                let val_ok = succ.iter().any(|x| x.2 == r.serial && x.0 <= t.end_us && (jump > 0 || x.0 == tmin)) && r.req == i as u32;
                                if !val_ok {
                                    world::violation("C12.first_success", "wrong_value", format!("call {}: got serial {}, successes (t,serial) {:?}", i, r.serial, succ.iter().map(|x| (x.0, x.2)).collect::<Vec<_>>()));
                                }
                            }
                        }
                    }
                    (None, Some("AllAttemptsFailed")) => {
                        // with an infinite delay no further attempt can ever be started
                        let all_started = mine.len() == max || matches!(s.delay, Delay::Fixed(u64::MAX));
                        let all_failed_by_now = comp.iter().all(|x| !x.1 && x.0 <= t.end_us);
                        if !all_started || !all_failed_by_now {
                            let running: Vec<_> = comp.iter().filter(|x| x.0 > t.end_us).map(|x| (x.0, x.1)).collect();
                            world::violation(
                                "C12.all_failed_only_if",
                                if !all_started {
                                    "not_all_started"
                                } else if comp.iter().any(|x| x.1 && x.0 <= t.end_us) {
                                    "success_ignored"
                                } else {
                                    "attempt_still_running"
                                },
                                format!("call {}: AllAttemptsFailed at {}us with {}/{} attempts started; still running (done_at, will_succeed): {:?}", i, t.end_us, mine.len(), max, running),
                            );
                        } else {
                            world::probe("all_attempts_failed");
                        }
                        if let Some(e) = &o.inner {
                            if e.req != i as u32 {
                                world::violation("C12.all_failed_only_if", "foreign_error", format!("call {} got the error of request {}", i, e.req));
                            }
                        }
                    }
                    (None, other) => {
                        world::violation("C12.resolves", "unexpected_error", format!("call {} resolved with {:?}", i, other));
                    }
                }
            }
            Status::Unresolved => {
                // an infinite delay means the next attempt can never be started: the call may
                // wait for ever once everything started has failed
                let stuck_by_config = matches!(s.delay, Delay::Fixed(u64::MAX)) && comp.iter().all(|x| !x.1);
                if !stuck_by_config {
                    world::violation("C12.resolves", "never", format!("hedged call {} never resolved ({} attempts started)", i, mine.len()));
                }
            }
            Status::Panicked => {
                world::violation("C12.resolves", "panic", format!("hedged call {} panicked: {:?}", i, t.panic_msg));
            }
            _ => {}
        }
        // probes
        for j in 1..mine.len() {
            if comp[..j].iter().any(|x| !x.1 && x.0 < mine[j].start_us) {
                world::probe("attempt_failed_before_next_started");
            }
            if comp[..j].iter().any(|x| x.0 == mine[j].start_us) {
                world::probe("completion_at_hedge_instant");
            }
        }
        if comp.iter().any(|x| !x.1) && comp.iter().any(|x| x.1) {
            world::probe("mixed_outcomes");
        }
    }
    let mut w = world::take();
    w.log = log;
    finish(w, ctx, &rep, "C12", nontrivial, outcome_summary(&rep))
}

pub struct C12;

impl Prop for C12 {
    fn id(&self) -> &'static str {
        "C12"
    }
    fn gen(&self, rng: &mut Rng, _t: Tier) -> Value {
        serde_json::to_value(gen(rng)).unwrap()
    }
    fn valid(&self, v: &Value) -> bool {
        parse::<Scn>(v).map(|s| valid(&s)).unwrap_or(false)
    }
    fn run(&self, v: &Value, ctx: &mut RunCtx) -> RunOutput {
        run(&parse::<Scn>(v).unwrap(), ctx)
    }
    fn runs(&self, t: Tier) -> u64 {
        match t {
            Tier::Quick => 20_000,
            Tier::Thorough => 10_000_000,
        }
    }
    fn nontrivial_rule(&self) -> &'static str {
        "scenario = max_hedged_attempts 1..4 (17-24 attempts completing together in one run of twelve; usize::MAX with eventually succeeding scripts), delay fixed (ms or sub-ms) / zero / immediate / Duration::MAX / per-attempt table (entries may be zero), builder calls in either order with a decoy delay setting, clones that need a warm-up, service built inside another runtime's context, an event listener that blocks the thread for 3-150 ms at the n-th HedgeStarted / PrimaryStarted event, 1-3 concurrent hedged calls, per-attempt (latency, ok|error) vectors from a lattice that makes failures land before/at/after the next hedge instant, clock jumps; the library's spawned attempt tasks run on tokio's FIFO queue, perturbed by seeded yields. Non-trivial: at least two attempts were started for some call. Distinct = distinct event-log digest."
    }
    fn real_components(&self) -> Vec<&'static str> {
        vec!["tower-resilience-hedge (Hedge, HedgeLayer builder, execute_with_hedging)", "tokio::spawn, mpsc, select!, sleep on the paused clock"]
    }
    fn stub_components(&self) -> Vec<&'static str> {
        vec!["inner service (SimInner: the j-th call for a request gets the j-th scripted behaviour)"]
    }
    fn assumptions(&self) -> Vec<&'static str> {
        vec!["per-attempt delay tables with a zero entry: the documentation does not say whether a zero means parallel mode, so only the attempt bound, the lower bound on spacing, first-success and all-failed rules are applied to them", "two successes completing at the same instant: either value accepted"]
    }
}
