//! C02 (at most limit_for_period admissions per window) and C15 (decided within the timeout,
//! rejected calls go nowhere, idle bursts admitted at once) on the real `RateLimiter`.

use super::common::*;
use crate::driver::{Prop, RunCtx, RunOutput, Tier};
use crate::exec::{run_sim, Hooks, LocalFut, Out, Status, TaskDef};
use crate::inner::{Behaviour, Outcome, Req, SimErr, SimInner, SimPanic};
use crate::logq::inner_calls;
use crate::rng::Rng;
use crate::world;
use serde::{Deserialize, Serialize};
use serde_json::Value;
use std::collections::HashSet;
use std::time::Duration;
use tower::{Layer, Service, ServiceExt};
use tower_resilience_ratelimiter::{RateLimiterLayer, RateLimiterServiceError, WindowType};

#[derive(Clone, Debug, Serialize, Deserialize, PartialEq)]
pub struct Caller {
    pub start_ms: u64,
    pub lat_ms: u64,
    pub err: bool,
    pub cancel: CancelSpec,
    /// which of the services built from the one layer this caller uses
    #[serde(default)]
    pub svc: u8,
}

#[derive(Clone, Debug, Serialize, Deserialize, PartialEq)]
pub struct Scn {
    /// 0 fixed, 1 sliding log, 2 sliding counter
    pub window: u8,
    pub limit: u32,
    pub period_ms: u64,
    pub timeout_ms: u64,
    pub listener_panic: bool,
    pub callers: Vec<Caller>,
    pub knobs: SchedKnobs,
    /// a second service built from the same layer: it must have its own permits
    #[serde(default)]
    pub two_services: bool,
    /// seed of the order in which the builder's setters are called (0 = as in the docs); each
    /// setter is also called once more, earlier, with another value (the last call wins)
    #[serde(default)]
    pub order: u64,
    /// the wrapped service takes only this many calls at a time (readiness waits for a free
    /// slot, as tower's ConcurrencyLimit does); only the window rules are applied then
    #[serde(default)]
    pub inner_capacity: Option<u32>,
    /// microseconds added to the period (periods need not be whole milliseconds)
    #[serde(default)]
    pub period_frac_us: u32,
    /// 0 ordinary; 1 = sliding log with a limit of 66-100 and three big bursts; 3 = a limit in the
    /// thousands and one burst that overshoots it; 2 = one caller
    /// every millisecond for 200ms against limit 1 and a fractional-millisecond period
    #[serde(default)]
    pub big: u8,
}

fn gen_big(rng: &mut Rng) -> Scn {
    let plain = |start_ms: u64| Caller { start_ms, lat_ms: 0, err: false, cancel: CancelSpec::Never, svc: 0 };
    if rng.chance(1, 5) {
        // a limit in the thousands (more than any fixed-size buffer an implementation may
        // keep), one burst that overshoots it, a second burst one period later
        let limit = *rng.pick(&[1025u32, 1100, 1500]);
        let p = 50u64;
        let mut callers: Vec<Caller> = (0..limit + 30).map(|_| plain(0)).collect();
        callers.extend((0..10).map(|_| plain(p + 1)));
        return Scn { window: 1, limit, period_ms: p, timeout_ms: 0, listener_panic: false, callers, knobs: SchedKnobs::gen(rng, false, 100), two_services: false, order: 0, inner_capacity: None, period_frac_us: 0, big: 3 };
    }
    if rng.chance(1, 2) {
        // an older burst has left the window, a younger one is still inside it
        let limit = rng.range(66, 100) as u32;
        let p = 50u64;
        let (k1, k2) = (limit / 2, limit / 2 - rng.below(5) as u32);
        let mut callers = vec![];
        callers.extend((0..k1).map(|_| plain(0)));
        callers.extend((0..k2).map(|_| plain(p / 2)));
        callers.extend((0..limit).map(|_| plain(p + p / 5)));
        Scn { window: 1, limit, period_ms: p, timeout_ms: 0, listener_panic: false, callers, knobs: SchedKnobs::gen(rng, false, 100), two_services: false, order: 0, inner_capacity: None, period_frac_us: 0, big: 1 }
    } else {
        // many saturated windows in a row, period not a whole number of milliseconds
        let window = *rng.pick(&[0u8, 0, 2]);
        let callers = (0..200u64).map(plain).collect();
        Scn { window, limit: 1, period_ms: 10, timeout_ms: 0, listener_panic: false, callers, knobs: SchedKnobs::gen(rng, false, 100), two_services: false, order: 0, inner_capacity: None, period_frac_us: *rng.pick(&[900u32, 500, 333]), big: 2 }
    }
}

pub fn gen(rng: &mut Rng) -> Scn {
    if rng.chance(1, 40) {
        return gen_big(rng);
    }
    let window = rng.below(3) as u8;
    // u32::MAX stands for usize::MAX ("no limit" written as a number of permits)
    let limit = if rng.chance(1, 12) { u32::MAX } else { rng.range(1, 4) as u32 };
    let p = *rng.pick(&[20u64, 50]);
    // u64::MAX stands for Duration::MAX ("wait as long as it takes")
    let timeout_ms = *rng.pick(&[0, 0, p / 2, p / 2, p, p, p, 3 * p / 2, 3 * p / 2, 3 * p, 3 * p, u64::MAX]);
    let n = rng.range(2, 12) as usize;
    let faulty = rng.chance(1, 2);
    let two_services = rng.chance(1, 4);
    let mut callers = vec![];
    // phase 1 arrivals near multiples of P and P/2, in bursts
    let mut burst_at = 0u64;
    for i in 0..n {
        if i == 0 || rng.chance(1, 3) {
            burst_at = match rng.below(4) {
                0 => rng.below(5) * p,
                1 => rng.below(8) * (p / 2),
                2 => rng.below(4) * p + *rng.pick(&[1u64, 5, p - 1]),
                _ => rng.below(4 * p),
            };
        }
        callers.push(Caller {
            start_ms: burst_at,
            lat_ms: *rng.pick(&[0u64, 0, 5, 10]),
            err: rng.chance(1, 8),
            cancel: if faulty { gen_cancel(rng, burst_at, 15) } else { CancelSpec::Never },
            svc: if two_services { rng.below(2) as u8 } else { 0 },
        });
    }
    // idle gap then a burst of limit (+1) callers
    if rng.chance(2, 3) {
        let last = callers.iter().map(|c| c.start_ms).max().unwrap_or(0);
        let t2 = last + if timeout_ms == u64::MAX { 20 * p } else { timeout_ms } + 3 * p + *rng.pick(&[0u64, 1, 7]);
        let extra = if limit == u32::MAX { 3 } else { limit + rng.below(2) as u32 };
        for _ in 0..extra {
            callers.push(Caller { start_ms: t2, lat_ms: 0, err: false, cancel: CancelSpec::Never, svc: 0 });
        }
    }
    let inner_capacity = if rng.chance(1, 6) { Some(rng.range(1, 2) as u32) } else { None };
    if inner_capacity.is_some() {
        for c in callers.iter_mut() {
            c.lat_ms = *rng.pick(&[5u64, 20, 60, 120]);
            c.cancel = CancelSpec::Never;
        }
    }
    Scn {
        inner_capacity,
        period_frac_us: 0,
        big: 0,
        order: if rng.chance(1, 3) { rng.next_u64() | 1 } else { 0 },
        two_services,
        window,
        limit,
        period_ms: p,
        timeout_ms,
        listener_panic: faulty && rng.chance(1, 6),
        callers,
        knobs: SchedKnobs::gen(rng, faulty, 4 * p),
    }
}

pub fn valid(s: &Scn) -> bool {
    s.window <= 2
        && s.limit >= 1
        && (s.limit <= 6 || s.limit == u32::MAX || (s.big == 1 && s.limit <= 128) || (s.big == 3 && s.limit <= 2048))
        && s.big <= 3
        && s.period_frac_us <= 999
        && s.period_ms >= 5
        && s.period_ms <= 100
        && (s.timeout_ms <= 400 || s.timeout_ms == u64::MAX)
        && !s.callers.is_empty()
        && (s.callers.len() <= 20 || (s.big > 0 && s.callers.len() <= if s.big == 3 { 2100 } else { 320 } && s.callers.iter().all(|c| c.cancel == CancelSpec::Never)))
        && s.callers.iter().all(|c| c.start_ms <= 2000 && (c.lat_ms <= 50 || s.inner_capacity.is_some()))
        && s.knobs.jumps.len() <= 3
        && s.knobs.jumps.iter().all(|j| j.0 <= 1000 && j.1 <= 200)
        && s.callers.iter().all(|c| c.svc <= 1 && (s.two_services || c.svc == 0))
        && s.inner_capacity.map(|c| c >= 1 && c <= 4).unwrap_or(true)
        && s.callers.iter().all(|c| c.lat_ms <= 200)
}

/// Is there a cut of the time line into consecutive windows, each at least `p` long, each with
/// at most `l` admissions? (DESIGN.md appendix B; an admission on a boundary may go either side.)
pub fn partition_feasible(a: &[u64], l: usize, p: u64) -> bool {
    fn go(a: &[u64], l: usize, p: u64, j: usize, t: Option<u64>, memo: &mut HashSet<(usize, u64)>) -> bool {
        let n = a.len();
        if j >= n {
            return true;
        }
        if let Some(tt) = t {
            if memo.contains(&(j, tt)) {
                return false;
            }
        }
        let c0 = if t.is_none() { 1 } else { 0 };
        for c in c0..=l {
            if j + c >= n {
                return true;
            }
            let mut lower: Option<u64> = t.map(|x| x + p);
            if c > 0 {
                let last = a[j + c - 1];
                lower = Some(lower.map(|x| x.max(last)).unwrap_or(last));
            }
            let lo = lower.unwrap();
            if lo <= a[j + c] && go(a, l, p, j + c, Some(lo), memo) {
                return true;
            }
        }
        if let Some(tt) = t {
            memo.insert((j, tt));
        }
        false
    }
    let mut memo = HashSet::new();
    go(a, l, p, 0, None, &mut memo)
}

pub fn run(s: &Scn, ctx: &mut RunCtx, prefix: &'static str) -> RunOutput {
    world::reset();
    let last = s.callers.iter().map(|c| c.start_ms).max().unwrap_or(0);
    let mut cfg = s.knobs.cfg(ctx, last + 10 * s.period_ms + if s.timeout_ms == u64::MAX { 30 * s.period_ms } else { s.timeout_ms } + 2000, 0);
    if s.big == 3 {
        cfg.max_steps = 20_000;
    }
    let scn = s.clone();
    let setup = move || {
        world::with(|w| {
            for (i, c) in scn.callers.iter().enumerate() {
                w.script.by_req.insert(
                    (c.svc, i as u32),
                    vec![Behaviour { lat_ms: c.lat_ms, out: if c.err { Outcome::Err(0) } else { Outcome::Ok }, yields: 0 }],
                );
            }
        });
        if let Some(c) = scn.inner_capacity {
            world::with(|w| {
                w.script.capacity.insert(0, c as i64);
                w.script.capacity.insert(1, c as i64);
            });
        }
        let mut b = RateLimiterLayer::builder();
        let mut order: Vec<usize> = (0..4).collect();
        if scn.order != 0 {
            let mut r = Rng::new(scn.order);
            for i in (1..order.len()).rev() {
                let j = r.below(i as u64 + 1) as usize;
                order.swap(i, j);
            }
            // decoys: overwritten by the real settings below
            b = b.limit_for_period(count(scn.limit).saturating_add(3)).refresh_period(Duration::from_millis(7)).timeout_duration(Duration::from_millis(1)).window_type(if scn.window == 0 { WindowType::SlidingLog } else { WindowType::Fixed });
        }
        for k in order {
            b = match k {
                0 => b.limit_for_period(count(scn.limit)),
                1 => b.refresh_period(Duration::from_micros(scn.period_ms * 1000 + scn.period_frac_us as u64)),
                2 => b.timeout_duration(if scn.timeout_ms == u64::MAX { Duration::MAX } else { Duration::from_millis(scn.timeout_ms) }),
                _ => b.window_type(match scn.window {
                    0 => WindowType::Fixed,
                    1 => WindowType::SlidingLog,
                    _ => WindowType::SlidingCounter,
                }),
            };
        }
        if scn.listener_panic {
            b = b
                .on_permit_acquired(|_| {
                    world::fault("listener_panic");
                    std::panic::panic_any(SimPanic)
                })
                .on_permit_rejected(|_| {
                    world::fault("listener_panic");
                    std::panic::panic_any(SimPanic)
                });
        }
        let layer = b.build();
        let Some(bases) = build_guarded("C15.admit_at_once", &format!("a rate limiter with limit_for_period={} window type {}", count(scn.limit), scn.window), || [layer.layer(SimInner::new(0)), layer.layer(SimInner::new(1))]) else {
            return vec![];
        };
        let mut defs = vec![];
        for (i, c) in scn.callers.iter().enumerate() {
            let svc = bases[c.svc as usize].clone();
            let req = Req { id: i as u32, key: 0 };
            let make: Box<dyn FnOnce() -> LocalFut> = Box::new(move || {
                Box::pin(async move {
                    let mut svc = svc;
                    let r: Result<_, RateLimiterServiceError<SimErr>> = match svc.ready().await {
                        Err(e) => Err(e),
                        Ok(sv) => sv.call(req).await,
                    };
                    match r {
                        Ok(x) => Out::ok(x),
                        Err(RateLimiterServiceError::RateLimited) => Out::err("RateLimited", None),
                        Err(RateLimiterServiceError::Inner(e)) => Out::err("Inner", Some(e)),
                    }
                })
            });
            defs.push(TaskDef { start_ms: c.start_ms, make, cancel: c.cancel.to_cancel() });
        }
        defs
    };
    let mut step = |_k| {};
    let mut idle = || {};
    let rep = run_sim(cfg, &mut ctx.chooser, setup, Hooks { step: &mut step, idle: &mut idle });
    let log = world::with(|w| std::mem::take(&mut w.log));
    let all_calls = inner_calls(&log);
    let mut any_waited = false;
    let mut any_rejected = false;
    for k in 0..(if s.two_services { 2u8 } else { 1 }) {
    let calls: Vec<_> = all_calls.iter().filter(|c| c.svc == k).cloned().collect();
    let mine_task = |i: usize| s.callers.get(i).map(|c| c.svc == k).unwrap_or(false);
    let jump = s.knobs.total_jump() * 1000;
    let p = s.period_ms * 1000 + s.period_frac_us as u64;
    // ("no limit": more permits than there are callers)
    let l = if s.limit == u32::MAX { s.callers.len() + 1 } else { s.limit as usize };
    let tout = s.timeout_ms.saturating_mul(1000);
    // admissions in order
    let adm: Vec<u64> = calls.iter().map(|c| c.start_us).collect();
    let waited_admission = calls.iter().any(|c| {
        rep.tasks.get(c.req as usize).map(|t| c.start_us > t.first_poll_us).unwrap_or(false)
    });
    let detail = || {
        format!(
            "window={} limit={} period={}ms timeout={}ms admissions(us)={}",
            ["fixed", "sliding_log", "sliding_counter"][s.window as usize],
            l,
            s.period_ms,
            s.timeout_ms,
            // (long histories: the first and last 20)
            if adm.len() > 48 { format!("{:?} ... {:?} ({} in all)", &adm[..20], &adm[adm.len() - 20..], adm.len()) } else { format!("{:?}", adm) }
        )
    };
    if s.window == 1 {
        for i in 0..adm.len().saturating_sub(l) {
            if adm[i + l] - adm[i] < p {
                world::violation("C02.sliding_log", "", format!("{} admissions within {}us (< period): {}", l + 1, adm[i + l] - adm[i], detail()));
                if waited_admission {
                    world::violation("C15.waiters_take_permit", "sliding_log", format!("a waiting caller was forwarded without a permit: {}", detail()));
                }
                break;
            }
        }
    } else if !partition_feasible(&adm, l, p) {
        world::violation(
            "C02.window_partition",
            if s.window == 0 { "fixed" } else { "sliding_counter" },
            format!("no cut into windows >= period with <= limit admissions each: {}", detail()),
        );
        if waited_admission {
            world::violation(
                "C15.waiters_take_permit",
                if s.window == 0 { "fixed" } else { "sliding_counter" },
                format!("a waiting caller was forwarded without a permit of a later window: {}", detail()),
            );
        }
    }
    // per caller
    // limiter activity instants (arrivals, admissions, rejections) for the idle rule
    let mut activity: Vec<(u64, u64)> = vec![]; // (t_us, seq)
    for (i, t) in rep.tasks.iter().enumerate() {
        if t.first_poll_seq > 0 && mine_task(i) {
            activity.push((t.first_poll_us, t.first_poll_seq));
            if t.end_seq > 0 {
                activity.push((t.end_us, t.end_seq));
            }
        }
    }
    for c in calls.iter() {
        activity.push((c.start_us, c.start_seq));
    }
    for (i, t) in rep.tasks.iter().enumerate() {
        if t.first_poll_seq == 0 || !mine_task(i) {
            continue;
        }
        if s.inner_capacity.is_some() {
            // arrival-relative timing says nothing when the wrapped service made the caller wait
            let mine = calls.iter().filter(|c| c.req == i as u32).count();
            if mine > 1 {
                world::violation("C15.admitted_once", "", format!("caller {} reached the inner service {} times", i, mine));
            }
            if t.status == Status::Resolved && t.out.as_ref().and_then(|o| o.err) == Some("RateLimited") {
                any_rejected = true;
                if mine > 0 {
                    world::violation("C15.rejected_never_inner", "", format!("rejected caller {} reached the inner service", i));
                }
            }
            if mine > 0 && calls.iter().any(|c| c.req == i as u32 && c.start_us > t.first_poll_us) {
                any_waited = true;
            }
            continue;
        }
        let a = t.first_poll_us;
        let mine: Vec<_> = calls.iter().filter(|c| c.req == i as u32).collect();
        if mine.len() > 1 {
            world::violation("C15.admitted_once", "", format!("caller {} reached the inner service {} times", i, mine.len()));
        }
        let slack = if s.window == 2 { 1000 } else { 0 } + jump;
        if let Some(m) = mine.first() {
            if m.start_us > a {
                any_waited = true;
                world::probe("admitted_after_waiting");
            }
            if m.start_us > a.saturating_add(tout).saturating_add(slack) {
                world::violation("C15.decided_by", "admitted_late", format!("caller {} arrived {}us, admitted {}us, timeout {}us", i, a, m.start_us, tout));
            }
        }
        // admit at once when the last period has spare capacity (fixed, sliding log)
        let recent = calls.iter().filter(|c| c.start_seq < t.first_poll_seq && c.start_us + p >= a).count();
        let must_admit_now = if s.window != 2 {
            recent < l
        } else {
            false
        };
        // sliding log: admitted on arrival although `limit` earlier admissions are still strictly
        // inside the window: there was no spare capacity
        if s.window == 1 && jump == 0 {
            let inside = calls.iter().filter(|c| c.start_seq < t.first_poll_seq && c.start_us + p > a).count();
            if inside >= l && mine.first().map(|m| m.start_us == a).unwrap_or(false) {
                world::violation(
                    "C15.admit_at_once",
                    "no_capacity",
                    format!("caller {} arrived at {}us with {} admissions still inside the last period (limit {}) and was admitted at once; {}", i, a, inside, l, detail()),
                );
            }
        }
        // idle rule (all window types): nothing happened in the 2 periods before this instant
        let quiet = !activity.iter().any(|(tu, _)| *tu < a && *tu + 2 * p >= a) && a >= 2 * p;
        let same_instant_before = calls.iter().filter(|c| c.start_seq < t.first_poll_seq && c.start_us == a).count();
        let idle_admit = quiet && same_instant_before < l && jump == 0;
        if quiet {
            world::probe("arrival_after_two_idle_periods");
        }
        let cancelled_early = t.status == Status::Cancelled && mine.is_empty();
        if (must_admit_now || idle_admit) && !cancelled_early {
            let ok = mine.first().map(|m| m.start_us == a).unwrap_or(false);
            if !ok {
                world::violation(
                    if idle_admit { "C15.idle_burst" } else { "C15.admit_at_once" },
                    ["fixed", "sliding_log", "sliding_counter"][s.window as usize],
                    format!(
                        "caller {} arrived at {}us with {} admissions in the last period (limit {}), idle={} but was not admitted at once (admitted {:?}, result {:?}); {}",
                        i,
                        a,
                        recent,
                        l,
                        quiet,
                        mine.first().map(|m| m.start_us),
                        t.out.as_ref().and_then(|o| o.err),
                        detail()
                    ),
                );
            }
        }
        // A lone caller for which capacity certainly frees up within its timeout must not be
        // rejected (fixed window: a new window starts at the latest one period after the first
        // of the last `limit` admissions; sliding log: that admission expires then).
        if s.window != 2 && jump == 0 {
            let prior: Vec<u64> = calls.iter().filter(|c| c.start_seq < t.first_poll_seq).map(|c| c.start_us).collect();
            if prior.len() >= l {
                let e = prior[prior.len() - l] + p;
                let competition = rep.tasks.iter().enumerate().any(|(j, u)| {
                    if j == i || u.first_poll_seq == 0 || !mine_task(j) {
                        return false;
                    }
                    let decided_seq = calls
                        .iter()
                        .find(|c| c.req == j as u32)
                        .map(|c| c.start_seq)
                        .or(if u.end_seq > 0 { Some(u.end_seq) } else { None })
                        .unwrap_or(u64::MAX);
                    let undecided_at_my_arrival = u.first_poll_seq < t.first_poll_seq && decided_seq > t.first_poll_seq;
                    let arrives_later = u.first_poll_seq > t.first_poll_seq && u.first_poll_us <= e + 1000;
                    undecided_at_my_arrival || arrives_later
                });
                let cancelled = t.status == Status::Cancelled;
                if e > a && e - a <= tout && !competition && !cancelled {
                    world::probe("lone_waiter_with_reachable_permit");
                    let admitted_in_time = mine.first().map(|m| m.start_us <= e + 1000).unwrap_or(false);
                    if !admitted_in_time {
                        world::violation(
                            "C15.rejected_only_if_needed",
                            ["fixed", "sliding_log", "sliding_counter"][s.window as usize],
                            format!(
                                "caller {} arrived alone at {}us; capacity frees at the latest at {}us, within its timeout {}us, but it was {:?} (admitted {:?}); {}",
                                i,
                                a,
                                e,
                                tout,
                                t.out.as_ref().and_then(|o| o.err),
                                mine.first().map(|m| m.start_us),
                                detail()
                            ),
                        );
                    }
                }
            }
        }
        // A rejected caller lost every refresh that fell within its timeout: a fixed window hands
        // out `limit` fresh permits at each boundary (boundaries are at most one period apart, the
        // first at most one period after the arrival), a sliding log frees a slot at the latest one
        // period after each check. So at least floor(timeout/period) refreshes were tried, and each
        // was lost to `limit` (fixed) / one (sliding log) admissions of other callers that happened
        // after this caller's arrival and within its timeout. Only without cancelled callers, clock
        // jumps and panicking listeners (a design with reservations could hold a place for those).
        let undisturbed = jump == 0 && !s.listener_panic && s.callers.iter().all(|c| c.cancel == CancelSpec::Never);
        if s.window != 2 && undisturbed && t.status == Status::Resolved && t.out.as_ref().and_then(|o| o.err) == Some("RateLimited") {
            let refreshes = tout / p;
            let per = if s.window == 0 { l as u64 } else { 1 };
            let need = refreshes.saturating_mul(per);
            let got = calls
                .iter()
                .filter(|c| c.req != i as u32 && c.start_seq > t.first_poll_seq && c.start_us <= a.saturating_add(tout))
                .count() as u64;
            if refreshes >= 1 {
                world::probe("rejected_after_losing_refreshes");
            }
            if got < need {
                world::violation(
                    "C15.rejected_only_if_needed",
                    if s.window == 0 { "fixed_competition" } else { "sliding_log_competition" },
                    format!(
                        "caller {} arrived at {}us and was rejected at {}us although its timeout {}us spans {} refreshes and only {} other callers were admitted after its arrival within that time (a rejection needs {}); {}",
                        i, a, t.end_us, tout, refreshes, got, need, detail()
                    ),
                );
            }
        }
        match t.status {
            Status::Resolved => {
                let o = t.out.as_ref().unwrap();
                if o.err == Some("RateLimited") {
                    any_rejected = true;
                    if !mine.is_empty() {
                        world::violation("C15.rejected_never_inner", "", format!("rejected caller {} reached the inner service", i));
                    }
                    if t.end_us > a.saturating_add(tout).saturating_add(slack) {
                        world::violation("C15.decided_by", "rejected_late", format!("caller {} arrived {}us, rejected {}us, timeout {}us", i, a, t.end_us, tout));
                    }
                } else if mine.is_empty() {
                    world::violation("C15.admitted_once", "never", format!("caller {} got {:?} without reaching the inner service", i, o));
                } else {
                    let m = mine[0];
                    let good = match (&o.ok, &o.inner) {
                        (Some(r), _) => r.serial == m.serial && r.req == i as u32,
                        (None, Some(e)) => e.serial == m.serial,
                        _ => false,
                    };
                    if !good {
                        world::violation("C15.admitted_once", "foreign_result", format!("caller {} got {:?}, own call serial {}", i, o, m.serial));
                    }
                }
            }
            Status::Cancelled => {
                if mine.iter().any(|m| m.start_seq > t.end_seq) {
                    world::violation("C15.rejected_never_inner", "cancelled", format!("cancelled caller {} reached the inner service afterwards", i));
                }
                if mine.is_empty() {
                    world::probe("cancelled_while_waiting");
                }
            }
            Status::Unresolved => {
                world::violation("C15.decided_by", "never", format!("caller {} was never decided", i));
            }
            Status::Panicked => {
                world::violation("C15.decided_by", "panic", format!("caller {} panicked: {:?}", i, t.panic_msg));
            }
            _ => {}
        }
    }
    // several waiters asleep across the same refresh?
    {
        let mut waiters_at: std::collections::BTreeMap<u64, usize> = Default::default();
        for c in calls.iter() {
            if let Some(t) = rep.tasks.get(c.req as usize) {
                if c.start_us > t.first_poll_us {
                    *waiters_at.entry(c.start_us).or_insert(0) += 1;
                }
            }
        }
        if waiters_at.values().any(|n| *n >= 2) {
            world::probe("several_waiters_admitted_same_instant");
        }
    }
    }
    let nontrivial = if prefix == "C02" { any_waited || any_rejected } else { any_waited || any_rejected };
    let mut w = world::take();
    w.log = log;
    finish(w, ctx, &rep, prefix, nontrivial, outcome_summary(&rep))
}

pub struct C02;
pub struct C15;

macro_rules! rl_prop {
    ($t:ident, $id:expr, $rule:expr) => {
        impl Prop for $t {
            fn id(&self) -> &'static str {
                $id
            }
            fn engine(&self) -> &'static str {
                "asim + tsim (shuttle) + msim (Miri)"
            }
            fn supplement(&self, tier: Tier, seed: u64) -> (Vec<crate::world::Violation>, Value) {
                super::common::msim_supplement($id, "ratelimiter", tier, seed)
            }
            fn gen(&self, rng: &mut Rng, _t: Tier) -> Value {
                // one run in eight drives the limiter from several threads (engine B)
                if rng.chance(1, 8) {
                    return serde_json::to_value(super::svcthreads::gen_rl(rng)).unwrap();
                }
                serde_json::to_value(gen(rng)).unwrap()
            }
            fn valid(&self, v: &Value) -> bool {
                if super::svcthreads::is_threads(v) {
                    return super::svcthreads::valid_json(v) && matches!(parse::<super::svcthreads::ScnT>(v).map(|s| s.kind), Some(super::svcthreads::Kind::RateLimiter { .. }));
                }
                parse::<Scn>(v).map(|s| valid(&s)).unwrap_or(false)
            }
            fn run(&self, v: &Value, ctx: &mut RunCtx) -> RunOutput {
                if super::svcthreads::is_threads(v) {
                    return super::svcthreads::run_json(v, ctx, $id);
                }
                run(&parse::<Scn>(v).unwrap(), ctx, $id)
            }
            fn runs(&self, t: Tier) -> u64 {
                match t {
                    Tier::Quick => 20_000,
                    Tier::Thorough => 8_000_000,
                }
            }
            fn nontrivial_rule(&self) -> &'static str {
                $rule
            }
            fn real_components(&self) -> Vec<&'static str> {
                vec!["tower-resilience-ratelimiter (RateLimiter, SharedRateLimiter, fixed / sliding-log / sliding-counter states) reading tokio's paused clock (hook)", "tokio::time::sleep"]
            }
            fn stub_components(&self) -> Vec<&'static str> {
                vec!["inner service (SimInner)", "event listeners"]
            }
            fn assumptions(&self) -> Vec<&'static str> {
                vec!["admission = the instant the inner call() starts", "sliding counter computes fractional waits: +1ms allowed on decision deadlines", "window oracle is alignment independent (appendix B)"]
            }
        }
    };
}

rl_prop!(C02, "C02", "scenario = window type, limit 1..4, period 20/50ms, timeout 0..3 periods, 2-12 callers arriving in bursts on/near period boundaries plus an idle gap and a burst, cancels while waiting, clock jumps; one run in forty is a big scenario (sliding log with a limit of 66-100 and three bursts, or 200 callers a millisecond apart against limit 1 and a fractional period, or a limit of 1025-1500 with a burst that overshoots it); schedule seeded. In one run of six the wrapped service has a capacity (its readiness waits for a free slot, like tower's ConcurrencyLimit). One run in eight is a thread scenario (engine B): 2-4 shuttle threads drive clones of the real service with a no-op waker; every acquisition of a library lock, every operation on a library atomic and every verif::yield_async site is a scheduling point of the seeded thread scheduler; the clock is a paused tokio clock moved by Advance operations. Non-trivial: some caller was admitted after waiting or was rejected. Distinct = distinct event-log digest.");
rl_prop!(C15, "C15", "same scenario space as C02 (incl. limit usize::MAX, timeout Duration::MAX, shuffled builder calls with decoy values, a second service built from the same layer). In one run of six the wrapped service has a capacity (its readiness waits for a free slot, like tower's ConcurrencyLimit). One run in eight is a thread scenario (engine B): 2-4 shuttle threads drive clones of the real service with a no-op waker; every acquisition of a library lock, every operation on a library atomic and every verif::yield_async site is a scheduling point of the seeded thread scheduler; the clock is a paused tokio clock moved by Advance operations. Non-trivial: some caller was admitted after waiting or was rejected. Distinct = distinct event-log digest.");

#[cfg(test)]
mod tests {
    use super::partition_feasible;
    #[test]
    fn partition() {
        assert!(partition_feasible(&[0, 0, 50, 50], 2, 50));
        assert!(!partition_feasible(&[0, 0, 49, 49, 49], 2, 50));
        assert!(partition_feasible(&[0, 10, 60, 70], 2, 50));
        assert!(partition_feasible(&[0, 10, 20], 2, 50));
        assert!(!partition_feasible(&[0, 1, 2, 3, 4], 2, 50));
    }
}
