//! C05: bounded attempts, stop rule, last outcome, backoff, budget grants on the real `Retry`.

use super::common::*;
use crate::driver::{Prop, RunCtx, RunOutput, Tier};
use crate::exec::{run_sim, Hooks, LocalFut, Out, Status, TaskDef};
use crate::inner::{Behaviour, EndHow, Outcome, Req, SimErr, SimInner, SimPanic};
use crate::logq::inner_calls;
use crate::rng::Rng;
use crate::world::{self, Ev};
use serde::{Deserialize, Serialize};
use serde_json::Value;
use std::sync::Arc;
use std::time::Duration;
use tower::{Layer, Service, ServiceExt};
use tower_resilience_retry::{
    ExponentialBackoff, FixedInterval, IntervalFunction, RetryBudget, RetryBudgetBuilder, RetryLayer,
};

#[derive(Clone, Debug, Serialize, Deserialize, PartialEq)]
pub enum Backoff {
    Table(Vec<u64>),
    Fixed(u64),
    Exponential(u64),
}

#[derive(Clone, Debug, Serialize, Deserialize, PartialEq)]
pub enum BudgetSpec {
    TokenBucket { max: u32, initial: u32 },
    Aimd { min: u32, max: u32, deposit: u32, withdraw: u32, factor_eighths: u32 },
}

#[derive(Clone, Debug, Serialize, Deserialize, PartialEq)]
pub struct ReqSpec {
    pub start_ms: u64,
    pub script: Vec<Behaviour>,
    pub max_attempts: u32,
    pub cancel: CancelSpec,
}

#[derive(Clone, Debug, Serialize, Deserialize, PartialEq)]
pub struct Scn {
    pub max_attempts: u32,
    pub per_request: bool,
    /// 0: no predicate (retry everything); 1: retry only error kind 0
    pub predicate: u8,
    pub backoff: Backoff,
    pub budget: Option<BudgetSpec>,
    pub listener_panic: bool,
    pub reqs: Vec<ReqSpec>,
    pub knobs: SchedKnobs,
    /// seed of the order of the builder's setters (0 = as in the docs), with decoy calls first
    #[serde(default)]
    pub order: u64,
}

pub fn gen(rng: &mut Rng) -> Scn {
    let n = rng.range(1, 6) as usize;
    let backoff = match rng.below(4) {
        0 | 1 => {
            let len = rng.range(1, 7) as usize;
            Backoff::Table((0..len).map(|_| *rng.pick(&[0u64, 1, 5, 10, 10, 20, 40])).collect())
        }
        2 => Backoff::Fixed(*rng.pick(&[0u64, 5, 10, 25])),
        _ => Backoff::Exponential(*rng.pick(&[1u64, 5, 10])),
    };
    let budget = match rng.below(4) {
        0 | 1 => None,
        2 => {
            let max = rng.range(1, 4) as u32;
            Some(BudgetSpec::TokenBucket { max, initial: rng.range(0, max as u64) as u32 })
        }
        _ => {
            let max = rng.range(1, 6) as u32;
            Some(BudgetSpec::Aimd {
                min: rng.range(0, 1) as u32,
                max,
                deposit: rng.range(1, 2) as u32,
                withdraw: rng.range(1, 3) as u32,
                factor_eighths: *rng.pick(&[0u32, 4, 6, 8]),
            })
        }
    };
    let mut reqs = vec![];
    for _ in 0..n {
        let len = rng.range(1, 8) as usize;
        let all_fail = rng.chance(1, 3);
        let mut script = vec![];
        for k in 0..len {
            let r = rng.below(100);
            let out = if all_fail || k + 1 < len {
                if r < 75 {
                    Outcome::Err(0)
                } else if r < 90 {
                    Outcome::Err(1)
                } else if r < 94 {
                    Outcome::Ok
                } else if r < 97 {
                    Outcome::Never
                } else if r < 99 {
                    Outcome::Panic
                } else {
                    Outcome::PanicInCall
                }
            } else if r < 70 {
                Outcome::Ok
            } else {
                Outcome::Err(rng.below(2) as u8)
            };
            script.push(Behaviour {
                lat_ms: *rng.pick(&[0u64, 0, 1, 5, 10, 20]),
                out,
                yields: *rng.pick(&[0u8, 0, 1, 2]),
            });
        }
        let start_ms = *rng.pick(&[0u64, 0, 0, 5, 10, 20]);
        reqs.push(ReqSpec {
            start_ms,
            script,
            max_attempts: rng.range(0, 6) as u32,
            cancel: gen_cancel(rng, start_ms, 8),
        });
    }
    Scn {
        max_attempts: rng.range(0, 6) as u32,
        per_request: rng.chance(1, 3),
        predicate: rng.below(2) as u8,
        backoff,
        budget,
        listener_panic: rng.chance(1, 8),
        reqs,
        knobs: SchedKnobs::gen(rng, true, 100),
        order: if rng.chance(1, 3) { rng.next_u64() | 1 } else { 0 },
    }
}

pub fn valid(s: &Scn) -> bool {
    !s.reqs.is_empty()
        && s.reqs.len() <= 8
        && s.max_attempts <= 8
        && s.predicate <= 1
        && s.reqs.iter().all(|r| {
            !r.script.is_empty()
                && r.script.len() <= 10
                && r.start_ms <= 200
                && r.max_attempts <= 8
                && r.script.iter().all(|b| b.lat_ms <= 100 && b.yields <= 4 && !matches!(b.out, Outcome::Err(k) if k > 1))
        })
        && match &s.backoff {
            Backoff::Table(t) => !t.is_empty() && t.len() <= 10 && t.iter().all(|x| *x <= 200),
            Backoff::Fixed(x) => *x <= 200,
            Backoff::Exponential(x) => *x >= 1 && *x <= 50,
        }
        && match &s.budget {
            None => true,
            Some(BudgetSpec::TokenBucket { max, initial }) => *max >= 1 && *max <= 8 && initial <= max,
            Some(BudgetSpec::Aimd { min, max, deposit, withdraw, factor_eighths }) => {
                min <= max && *max >= 1 && *max <= 16 && *deposit >= 1 && *deposit <= 4 && *withdraw >= 1 && *withdraw <= 4 && *factor_eighths <= 8
            }
        }
        && s.knobs.jumps.len() <= 3
        && s.knobs.jumps.iter().all(|j| j.0 <= 500 && j.1 <= 200)
}

struct LogInterval(Arc<dyn IntervalFunction>);
impl IntervalFunction for LogInterval {
    fn next_interval(&self, attempt: usize) -> Duration {
        let d = self.0.next_interval(attempt);
        world::note("backoff_asked", attempt as i64, d.as_micros() as i64);
        d
    }
}

struct TableInterval(Vec<u64>);
impl IntervalFunction for TableInterval {
    fn next_interval(&self, attempt: usize) -> Duration {
        let i = attempt.min(self.0.len() - 1);
        Duration::from_millis(self.0[i])
    }
}

struct LogBudget(Arc<dyn RetryBudget>);
impl RetryBudget for LogBudget {
    fn try_withdraw(&self) -> bool {
        let g = self.0.try_withdraw();
        world::note("withdraw", g as i64, self.0.balance() as i64);
        g
    }
    fn deposit(&self) {
        self.0.deposit();
        world::note("deposit", 0, self.0.balance() as i64);
    }
    fn balance(&self) -> usize {
        self.0.balance()
    }
}

pub fn run(s: &Scn, ctx: &mut RunCtx) -> RunOutput {
    world::reset();
    let cfg = s.knobs.cfg(ctx, 20_000, 0);
    let scn = s.clone();
    let setup = move || {
        world::with(|w| {
            for (i, r) in scn.reqs.iter().enumerate() {
                w.script.by_req.insert((0, i as u32), r.script.clone());
            }
        });
        let inner_fn: Arc<dyn IntervalFunction> = match &scn.backoff {
            Backoff::Table(t) => Arc::new(TableInterval(t.clone())),
            Backoff::Fixed(ms) => Arc::new(FixedInterval::new(Duration::from_millis(*ms))),
            Backoff::Exponential(ms) => Arc::new(ExponentialBackoff::new(Duration::from_millis(*ms))),
        };
        let mut b = RetryLayer::<Req, SimErr>::builder();
        let mut order: Vec<usize> = (0..3).collect();
        if scn.order != 0 {
            let mut r = Rng::new(scn.order);
            for i in (1..order.len()).rev() {
                let j = r.below(i as u64 + 1) as usize;
                order.swap(i, j);
            }
            // decoys, overwritten by the real settings below (the last call wins)
            b = b.fixed_backoff(Duration::from_millis(3)).max_attempts(scn.max_attempts as usize + 2);
            if scn.per_request {
                b = b.max_attempts(7);
            } else {
                b = b.max_attempts_fn(|_: &Req| 6);
            }
            if scn.predicate == 1 {
                b = b.retry_on(|_: &SimErr| true);
            }
        }
        let mut backoff = Some(LogInterval(inner_fn));
        for k in order {
            b = match k {
                0 => b.backoff(backoff.take().unwrap()),
                1 => {
                    if scn.per_request {
                        let tv: Vec<u32> = scn.reqs.iter().map(|r| r.max_attempts).collect();
                        b.max_attempts_fn(move |r: &Req| tv[r.id as usize] as usize)
                    } else {
                        b.max_attempts(scn.max_attempts as usize)
                    }
                }
                _ => {
                    if scn.predicate == 1 {
                        b.retry_on(|e: &SimErr| e.kind == 0)
                    } else {
                        b
                    }
                }
            };
        }
        if let Some(bs) = &scn.budget {
            let real: Arc<dyn RetryBudget> = match bs {
                BudgetSpec::TokenBucket { max, initial } => RetryBudgetBuilder::new()
                    .token_bucket()
                    .max_tokens(*max as usize)
                    .initial_tokens(*initial as usize)
                    .build(),
                BudgetSpec::Aimd { min, max, deposit, withdraw, factor_eighths } => RetryBudgetBuilder::new()
                    .aimd()
                    .min_budget(*min as usize)
                    .max_budget(*max as usize)
                    .deposit_amount(*deposit as usize)
                    .withdraw_amount(*withdraw as usize)
                    .decrease_factor(*factor_eighths as f64 / 8.0)
                    .build(),
            };
            b = b.budget(Arc::new(LogBudget(real)));
        }
        if scn.listener_panic {
            b = b
                .on_retry(|_, _| {
                    world::fault("listener_panic");
                    std::panic::panic_any(SimPanic)
                })
                .on_success(|_| std::panic::panic_any(SimPanic))
                .on_error(|_| std::panic::panic_any(SimPanic));
        }
        let layer = b.build();
        let base = layer.layer(SimInner::new(0));
        let mut defs = vec![];
        for (i, r) in scn.reqs.iter().enumerate() {
            let svc = base.clone();
            let req = Req { id: i as u32, key: 0 };
            let make: Box<dyn FnOnce() -> LocalFut> = Box::new(move || {
                Box::pin(async move {
                    let mut svc = svc;
                    match svc.ready().await {
                        Err(e) => Out::err("Inner", Some(e)),
                        Ok(sv) => match sv.call(req).await {
                            Ok(r) => Out::ok(r),
                            Err(e) => Out::err("Inner", Some(e)),
                        },
                    }
                })
            });
            defs.push(TaskDef { start_ms: r.start_ms, make, cancel: r.cancel.to_cancel() });
        }
        defs
    };
    let mut step = |_k| {};
    let mut idle = || {};
    let rep = run_sim(cfg, &mut ctx.chooser, setup, Hooks { step: &mut step, idle: &mut idle });
    let log = world::with(|w| std::mem::take(&mut w.log));
    let calls = inner_calls(&log);
    let mut nontrivial = false;
    let mut shared_budget_contention = false;
    for (i, t) in rep.tasks.iter().enumerate() {
        if t.first_poll_seq == 0 {
            continue;
        }
        let r = &s.reqs[i];
        let maxa = if s.per_request { r.max_attempts } else { s.max_attempts } as usize;
        let bound = maxa.max(1);
        let mine: Vec<_> = calls.iter().filter(|c| c.req == i as u32).collect();
        if mine.len() > bound {
            world::violation("C05.attempt_bounds", "too_many", format!("request {} made {} inner calls, max_attempts {}", i, mine.len(), maxa));
        }
        if mine.is_empty() && t.status == Status::Resolved {
            world::violation("C05.attempt_bounds", "none", format!("request {} resolved without any inner call", i));
        }
        if mine.len() >= 2 {
            nontrivial = true;
        }
        // events of this task in order (for backoff / budget bookkeeping)
        let my_notes: Vec<_> = log
            .iter()
            .filter(|x| x.task == i as i32 && matches!(x.ev, Ev::Note { .. }))
            .collect();
        let refuses = |k: u8| s.predicate == 1 && k != 0;
        for (k, c) in mine.iter().enumerate() {
            // stop rule: nothing after an ok / refused error / end of the caller
            if k > 0 {
                let prev = mine[k - 1];
                match prev.how {
                    Some(EndHow::Ok) => world::violation("C05.stop_rule", "after_ok", format!("request {}: attempt {} made after a success", i, k + 1)),
                    Some(EndHow::Err(kind)) if refuses(kind) => world::violation("C05.stop_rule", "after_refused", format!("request {}: attempt {} made after an error the predicate refuses", i, k + 1)),
                    Some(EndHow::Err(_)) => {}
                    other => world::violation("C05.stop_rule", "overlap", format!("request {}: attempt {} started while the previous one ended {:?}", i, k + 1, other)),
                }
                let (Some(pe_seq), Some(pe_us)) = (prev.end_seq, prev.end_us) else { continue };
                // backoff: asked once in between, waited at least the answer
                let asked: Vec<_> = my_notes
                    .iter()
                    .filter_map(|x| match &x.ev {
                        Ev::Note { tag: "backoff_asked", a, b } if x.seq > pe_seq && x.seq < c.start_seq => Some((*a, *b)),
                        _ => None,
                    })
                    .collect();
                // the property only asks that the wait is at least the configured backoff: an
                // implementation may consult the function more than once, never zero times
                let acceptable: Vec<i64> = asked.iter().filter(|(idx, _)| *idx == k as i64 - 1 || *idx == k as i64).map(|(_, a)| *a).collect();
                if asked.is_empty() {
                    world::violation("C05.backoff", "never_asked", format!("request {}: retry {} was made without asking the backoff function", i, k));
                } else if acceptable.is_empty() {
                    world::violation("C05.backoff", "wrong_index", format!("request {}: before retry {} the backoff function was only asked for attempts {:?}", i, k, asked.iter().map(|x| x.0).collect::<Vec<_>>()));
                } else {
                    let ans = *acceptable.iter().min().unwrap();
                    let gap = c.start_us.saturating_sub(pe_us) as i64;
                    if gap < ans {
                        world::violation("C05.backoff", "too_short", format!("request {}: retry {} started {}us after the failed attempt; configured backoff {}us", i, k, gap, ans));
                    }
                    if ans > 0 {
                        world::probe("nonzero_backoff_observed");
                    }
                }
                // budget: a grant in between
                if s.budget.is_some() {
                    let grants: Vec<_> = my_notes
                        .iter()
                        .filter_map(|x| match &x.ev {
                            Ev::Note { tag: "withdraw", a, .. } if x.seq > pe_seq && x.seq < c.start_seq => Some(*a),
                            _ => None,
                        })
                        .collect();
                    // no grant, no retry: the budget was asked and its last answer was a grant
                    if grants.last() != Some(&1) {
                        world::violation("C05.budget", "retry_without_grant", format!("request {}: retry {} made with budget answers {:?} (the last answer before a retry must be a grant)", i, k, grants));
                    }
                }
            }
        }
        if let Some(last_end) = t.end_seq.checked_sub(0).filter(|_| t.status != Status::Unresolved && t.end_seq > 0) {
            if mine.iter().any(|c| c.start_seq > last_end) {
                world::violation("C05.stop_rule", "after_end", format!("request {}: inner call after the caller ended", i));
            }
        }
        if t.status == Status::Resolved {
            let o = t.out.as_ref().unwrap();
            if let Some(last) = mine.last() {
                // last outcome
                let good = match (last.how, &o.ok, &o.inner) {
                    (Some(EndHow::Ok), Some(r), _) => r.serial == last.serial && r.req == i as u32,
                    (Some(EndHow::Err(k)), None, Some(e)) => e.serial == last.serial && e.kind == k && e.req == i as u32,
                    _ => false,
                };
                if !good {
                    world::violation("C05.last_outcome", "", format!("request {}: last attempt (serial {}) ended {:?} but the caller got {:?}", i, last.serial, last.how, o));
                }
                // not stopped early
                if let Some(EndHow::Err(kind)) = last.how {
                    if !refuses(kind) && mine.len() < bound {
                        // must be a budget refusal
                        let denied = my_notes.iter().any(|x| matches!(&x.ev, Ev::Note { tag: "withdraw", a: 0, .. }) && Some(x.seq) > last.end_seq);
                        if denied {
                            world::probe("budget_refused_retry");
                            shared_budget_contention = true;
                        } else {
                            world::violation("C05.stop_rule", "stopped_early", format!("request {}: gave up after {} of {} attempts on a retryable error without a budget refusal", i, mine.len(), bound));
                        }
                    }
                }
            }
        }
        if t.status == Status::Panicked {
            let scripted = r.script.iter().any(|b| matches!(b.out, Outcome::Panic | Outcome::PanicInCall));
            if !scripted || t.panic_msg.as_deref() != Some("SimPanic") {
                world::violation("C05.attempt_bounds", "panic", format!("request {} panicked: {:?}", i, t.panic_msg));
            }
        }
        if t.status == Status::Unresolved {
            let never = mine.last().map(|c| c.how.is_none()).unwrap_or(false);
            if !never {
                world::violation("C05.attempt_bounds", "never_resolved", format!("request {} never resolved after {} attempts", i, mine.len()));
            }
        }
    }
    let _ = shared_budget_contention;
    let mut w = world::take();
    w.log = log;
    finish(w, ctx, &rep, "C05", nontrivial, outcome_summary(&rep))
}

pub struct C05;

impl Prop for C05 {
    fn id(&self) -> &'static str {
        "C05"
    }
    fn gen(&self, rng: &mut Rng, _t: Tier) -> Value {
        serde_json::to_value(gen(rng)).unwrap()
    }
    fn valid(&self, v: &Value) -> bool {
        parse::<Scn>(v).map(|s| valid(&s)).unwrap_or(false)
    }
    fn run(&self, v: &Value, ctx: &mut RunCtx) -> RunOutput {
        run(&parse::<Scn>(v).unwrap(), ctx)
    }
    fn runs(&self, t: Tier) -> u64 {
        match t {
            Tier::Quick => 20_000,
            Tier::Thorough => 8_000_000,
        }
    }
    fn nontrivial_rule(&self) -> &'static str {
        "scenario = max_attempts 0..6 (fixed or per request), predicate on/off, backoff table/fixed/exponential behind a logging IntervalFunction, no budget / real token bucket / real AIMD budget behind a logging wrapper shared by 1-6 concurrent requests on clones, per-request outcome scripts (ok, retryable, non-retryable, never, panic), cancels, clock jumps, panicking listeners. Non-trivial: some request was retried at least once. Distinct = distinct event-log digest."
    }
    fn real_components(&self) -> Vec<&'static str> {
        vec!["tower-resilience-retry (Retry, RetryLayer builder, RetryPolicy, TokenBucketBudget, AimdBudget, FixedInterval, ExponentialBackoff)", "tokio::time::sleep on the paused clock"]
    }
    fn stub_components(&self) -> Vec<&'static str> {
        vec!["inner service (SimInner, per-request outcome script)", "logging wrappers around the interval function and the budget (delegate to the real ones)", "event listeners"]
    }
    fn assumptions(&self) -> Vec<&'static str> {
        vec!["the backoff index passed for retry k may be k-1 or k (documentation does not fix it); the wait is compared with the answer actually given"]
    }
}
