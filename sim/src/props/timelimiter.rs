//! C06: every call through the time limiter resolves by its deadline; cancel / keep-running modes.

use super::common::*;
use crate::driver::{Prop, RunCtx, RunOutput, Tier};
use crate::exec::{run_sim, Hooks, LocalFut, Out, Status, TaskDef};
use crate::inner::{Behaviour, EndHow, Outcome, Req, SimErr, SimInner, SimPanic};
use crate::logq::inner_calls;
use crate::rng::Rng;
use crate::world;
use serde::{Deserialize, Serialize};
use serde_json::Value;
use std::time::Duration;
use tower::{Layer, Service, ServiceExt};
use tower_resilience_timelimiter::{TimeLimiterError, TimeLimiterLayer};

#[derive(Clone, Debug, Serialize, Deserialize, PartialEq)]
pub struct Call {
    pub start_ms: u64,
    pub timeout_ms: u64,
    pub beh: Behaviour,
    pub cancel: CancelSpec,
    /// microseconds added to the (per-request) timeout: timeouts need not be whole milliseconds
    #[serde(default)]
    pub frac_us: u32,
}

#[derive(Clone, Debug, Serialize, Deserialize, PartialEq)]
pub struct Scn {
    pub cancel_mode: bool,
    /// Some(t): one fixed timeout for all calls; None: per-request timeouts
    pub fixed_timeout: Option<u64>,
    /// set the cancellation flag before (true) or after (false) the timeout source in the builder
    pub flag_first: bool,
    pub listener_panic: bool,
    pub calls: Vec<Call>,
    pub knobs: SchedKnobs,
    /// microseconds added to the fixed timeout
    #[serde(default)]
    pub fixed_frac_us: u32,
    /// the service is built while another (never driven) runtime's context is entered
    #[serde(default)]
    pub built_elsewhere: bool,
    /// indices of calls whose inner future is busy (uses up tokio's cooperative budget at every
    /// poll); the simulated tasks then run with a budget like real tokio tasks
    #[serde(default)]
    pub busy: Vec<u32>,
    /// a timeout source of the *other* kind is set first and then replaced (the last setter
    /// wins): 0 none, 1 a short one (3 ms), 2 a long one (300 ms)
    #[serde(default)]
    pub decoy: u8,
}

pub fn gen(rng: &mut Rng) -> Scn {
    let n = rng.range(1, 6) as usize;
    // u64::MAX stands for Duration::MAX ("no deadline" written as a timeout)
    let touts = [0u64, 10, 10, 25, 25, 50, 50, u64::MAX];
    let lats = [0u64, 5, 10, 10, 20, 25, 25, 30, 50, 60, 100];
    let fixed_timeout = if rng.chance(1, 2) { Some(*rng.pick(&touts)) } else { None };
    let mut calls = vec![];
    for _ in 0..n {
        let start_ms = *rng.pick(&[0u64, 0, 0, 5, 10, 15, 25, 40]);
        let r = rng.below(100);
        let out = if r < 55 {
            Outcome::Ok
        } else if r < 85 {
            if rng.chance(1, 6) {
                Outcome::Err(INNER_ELAPSED_KIND)
            } else {
                Outcome::Err(rng.below(2) as u8)
            }
        } else {
            Outcome::Never
        };
        calls.push(Call {
            start_ms,
            timeout_ms: *rng.pick(&touts),
            beh: Behaviour {
                lat_ms: *rng.pick(&lats),
                out,
                yields: *rng.pick(&[0u8, 0, 0, 1, 2]),
            },
            cancel: gen_cancel(rng, start_ms, 8),
            frac_us: if rng.chance(1, 5) { *rng.pick(&[1u32, 400, 500, 900, 999]) } else { 0 },
        });
    }
    Scn {
        cancel_mode: rng.chance(1, 2),
        fixed_timeout,
        flag_first: rng.chance(1, 2),
        listener_panic: rng.chance(1, 8),
        calls,
        fixed_frac_us: if rng.chance(1, 5) { *rng.pick(&[1u32, 400, 500, 900, 999]) } else { 0 },
        built_elsewhere: rng.chance(1, 8),
        busy: if rng.chance(1, 6) { vec![rng.below(n as u64) as u32] } else { vec![] },
        decoy: *rng.pick(&[0u8, 0, 0, 1, 1, 2]),
        knobs: SchedKnobs::gen(rng, true, 80),
    }
}

pub fn valid(s: &Scn) -> bool {
    !s.calls.is_empty()
        && s.calls.len() <= 8
        && s.calls.iter().all(|c| c.start_ms <= 200 && (c.timeout_ms <= 200 || c.timeout_ms == u64::MAX) && c.beh.lat_ms <= 200 && c.beh.yields <= 4 && !matches!(c.beh.out, Outcome::Panic | Outcome::PanicInCall))
        && s.fixed_timeout.map(|t| t <= 200 || t == u64::MAX).unwrap_or(true)
        && s.knobs.jumps.len() <= 3
        && s.knobs.jumps.iter().all(|j| j.0 <= 300 && j.1 <= 200)
        && s.fixed_frac_us <= 999
        && s.calls.iter().all(|c| c.frac_us <= 999)
        // one busy call at most: two would delay each other (each busy poll takes a virtual ms)
        && s.busy.len() <= 1
        && s.decoy <= 2
}

/// The wrapped service's error type is a boxed error: its own error, or (scripted kind 9) a
/// `tokio::time::error::Elapsed` of its own making (a service that guards its I/O with
/// `tokio::time::timeout` and uses `?`). That is an *inner* error like any other.
type BErr = Box<dyn std::error::Error + Send + Sync>;
pub const INNER_ELAPSED_KIND: u8 = 9;

fn own_elapsed() -> Option<tokio::time::error::Elapsed> {
    let mut f = Box::pin(tokio::time::timeout(Duration::ZERO, std::future::pending::<()>()));
    let wk = std::task::Waker::noop();
    match std::future::Future::poll(f.as_mut(), &mut std::task::Context::from_waker(wk)) {
        std::task::Poll::Ready(Err(e)) => Some(e),
        _ => None,
    }
}

fn to_box(e: SimErr) -> BErr {
    if e.kind == INNER_ELAPSED_KIND {
        if let Some(el) = own_elapsed() {
            world::fault("inner_error_is_tokio_elapsed");
            return Box::new(el);
        }
    }
    Box::new(e)
}

fn map_out(r: Result<crate::inner::Resp, TimeLimiterError<BErr>>) -> Out {
    match r {
        Ok(x) => Out::ok(x),
        Err(TimeLimiterError::Timeout) => Out::err("Timeout", None),
        Err(TimeLimiterError::Inner(e)) => match e.downcast::<SimErr>() {
            Ok(s) => Out::err("Inner", Some(*s)),
            Err(other) => {
                if other.is::<tokio::time::error::Elapsed>() {
                    Out::err("InnerElapsed", None)
                } else {
                    Out::err("InnerUnknown", None)
                }
            }
        },
    }
}

fn task<S>(svc: S, req: Req) -> Box<dyn FnOnce() -> LocalFut>
where
    S: Service<Req, Response = crate::inner::Resp, Error = TimeLimiterError<BErr>> + 'static,
    S::Future: 'static,
{
    Box::new(move || {
        Box::pin(async move {
            let mut svc = svc;
            match svc.ready().await {
                Err(e) => map_out(Err(e)),
                Ok(sv) => map_out(sv.call(req).await),
            }
        })
    })
}

pub fn run(s: &Scn, ctx: &mut RunCtx) -> RunOutput {
    world::reset();
    let cfg = s.knobs.cfg(ctx, 2000, 400);
    let scn = s.clone();
    // timeouts in microseconds (u64::MAX = Duration::MAX)
    let touts: Vec<u64> = s
        .calls
        .iter()
        .map(|c| match s.fixed_timeout {
            Some(u64::MAX) => u64::MAX,
            Some(t) => t * 1000 + s.fixed_frac_us as u64,
            None if c.timeout_ms == u64::MAX => u64::MAX,
            None => c.timeout_ms * 1000 + c.frac_us as u64,
        })
        .collect();
    let touts2 = touts.clone();
    let setup = move || {
        world::with(|w| {
            for (i, c) in scn.calls.iter().enumerate() {
                w.script.by_req.insert((0, i as u32), vec![c.beh]);
            }
            if !scn.busy.is_empty() {
                w.script.constrained_tasks = true;
                for b in &scn.busy {
                    w.script.busy.insert((0, *b % scn.calls.len() as u32));
                }
            }
        });
        let lp = scn.listener_panic;
        let mut defs = vec![];
        macro_rules! finish_builder {
            ($b:expr) => {{
                let mut b = $b;
                if lp {
                    b = b
                        .on_success(|_| {
                            world::fault("listener_panic");
                            std::panic::panic_any(SimPanic)
                        })
                        .on_error(|_| {
                            world::fault("listener_panic");
                            std::panic::panic_any(SimPanic)
                        })
                        .on_timeout(|| {
                            world::fault("listener_panic");
                            std::panic::panic_any(SimPanic)
                        });
                }
                let layer = b.build();
                let base = if scn.built_elsewhere { built_in_foreign_runtime(|| layer.layer(SimInner::new(0).map_err(to_box as fn(SimErr) -> BErr))) } else { layer.layer(SimInner::new(0).map_err(to_box as fn(SimErr) -> BErr)) };
                for (i, c) in scn.calls.iter().enumerate() {
                    defs.push(TaskDef {
                        start_ms: c.start_ms,
                        make: task(base.clone(), Req { id: i as u32, key: 0 }),
                        cancel: c.cancel.to_cancel(),
                    });
                }
            }};
        }
        let cancel = scn.cancel_mode;
        match scn.fixed_timeout {
            Some(t) => {
                let d = if t == u64::MAX { Duration::MAX } else { Duration::from_micros(t * 1000 + scn.fixed_frac_us as u64) };
                let dd = Duration::from_millis(if scn.decoy == 1 { 3 } else { 300 });
                match (scn.flag_first, scn.decoy > 0) {
                    (true, false) => finish_builder!(TimeLimiterLayer::builder().cancel_running_future(cancel).timeout_duration(d)),
                    (false, false) => finish_builder!(TimeLimiterLayer::builder().timeout_duration(d).cancel_running_future(cancel)),
                    (true, true) => finish_builder!(TimeLimiterLayer::builder().cancel_running_future(cancel).timeout_fn(move |_: &Req| dd).timeout_duration(d)),
                    (false, true) => finish_builder!(TimeLimiterLayer::builder().timeout_fn(move |_: &Req| dd).timeout_duration(d).cancel_running_future(cancel)),
                }
            }
            None => {
                let tv = touts2.clone();
                let f = move |r: &Req| if tv[r.id as usize] == u64::MAX { Duration::MAX } else { Duration::from_micros(tv[r.id as usize]) };
                let dd = Duration::from_millis(if scn.decoy == 1 { 3 } else { 300 });
                match (scn.flag_first, scn.decoy > 0) {
                    (true, false) => finish_builder!(TimeLimiterLayer::builder().cancel_running_future(cancel).timeout_fn(f)),
                    (false, false) => finish_builder!(TimeLimiterLayer::builder().timeout_fn(f).cancel_running_future(cancel)),
                    (true, true) => finish_builder!(TimeLimiterLayer::builder().cancel_running_future(cancel).timeout_duration(dd).timeout_fn(f)),
                    (false, true) => finish_builder!(TimeLimiterLayer::builder().timeout_duration(dd).timeout_fn(f).cancel_running_future(cancel)),
                }
            }
        }
        defs
    };
    let mut step = |_k| {};
    let mut idle = || {};
    let rep = run_sim(cfg, &mut ctx.chooser, setup, Hooks { step: &mut step, idle: &mut idle });
    drop_foreign_runtime();
    let log = world::with(|w| std::mem::take(&mut w.log));
    let calls = inner_calls(&log);
    let jump = s.knobs.total_jump() * 1000;
    let mut nontrivial = false;
    for (i, t) in rep.tasks.iter().enumerate() {
        if t.first_poll_seq == 0 {
            continue;
        }
        let c = &s.calls[i];
        let a = t.first_poll_us;
        let tout = touts[i];
        let lat = if c.beh.out == Outcome::Never { None } else { Some(c.beh.lat_ms * 1000) };
        let mine: Vec<_> = calls.iter().filter(|x| x.req == i as u32).collect();
        if mine.len() > 1 {
            world::violation("C06.inner_once", "", format!("call {} reached the inner service {} times", i, mine.len()));
        }
        let deadline = a.saturating_add(tout);
        // tokio's timers have millisecond resolution and round up: the timer of a deadline that
        // is not a whole millisecond fires at the next one
        let deadline_hi = if deadline == u64::MAX { u64::MAX } else { deadline.div_ceil(1000) * 1000 };
        if deadline_hi != deadline {
            world::probe("sub_millisecond_timeout");
        }
        match t.status {
            Status::Resolved => {
                let o = t.out.as_ref().unwrap();
                if mine.is_empty() && (!s.cancel_mode || tout > 0) {
                    // the inner service must have been asked before anything is decided (a zero
                    // timeout in cancel mode may legitimately never start it)
                    world::violation("C06.inner_once", "never_called", format!("call {} resolved without the inner service ever being called", i));
                } else if mine[0].start_us != a && jump == 0 {
                    world::violation("C06.inner_once", "late_start", format!("call {} arrived at {}us but the inner call started at {}us", i, a, mine[0].start_us));
                }
                let inner_done_at = lat.map(|l| a + l);
                let timed_out = o.err == Some("Timeout");
                let expect_at = match inner_done_at {
                    Some(d) if d <= deadline_hi => d,
                    _ => deadline_hi,
                };
                if timed_out {
                    nontrivial = true;
                }
                // instant
                let instant_ok = if jump == 0 {
                    // a tie can go either way but both are the same instant
                    t.end_us == expect_at
                } else {
                    t.end_us >= expect_at && t.end_us <= expect_at + jump
                };
                if !instant_ok {
                    world::violation(
                        "C06.resolve_instant",
                        if t.end_us > deadline_hi { "after_deadline" } else { "wrong_instant" },
                        format!(
                            "call {} arrived {}us timeout {}us inner latency {:?}us: resolved at {}us, expected {}us",
                            i, a, tout, lat, t.end_us, expect_at
                        ),
                    );
                }
                // result
                let inner_possible = inner_done_at.map(|d| d <= t.end_us).unwrap_or(false);
                let timeout_possible = deadline <= t.end_us;
                if timed_out {
                    let strictly_before = inner_done_at.map(|d| d < deadline).unwrap_or(false);
                    if (!timeout_possible || strictly_before) && jump == 0 {
                        world::violation("C06.result", "spurious_timeout", format!("call {} got Timeout at {}us, deadline {}us, inner done {:?}", i, t.end_us, deadline, inner_done_at));
                    }
                } else {
                    // inner result: must be this call's own scripted outcome
                    let want_ok = c.beh.out == Outcome::Ok;
                    let good = match (&o.ok, &o.inner, o.err) {
                        (Some(r), _, None) => want_ok && r.req == i as u32 && Some(r.serial) == mine.first().map(|m| m.serial),
                        (None, Some(e), Some("Inner")) => matches!(c.beh.out, Outcome::Err(k) if k == e.kind) && e.req == i as u32,
                        (None, None, Some("InnerElapsed")) => c.beh.out == Outcome::Err(INNER_ELAPSED_KIND),
                        _ => false,
                    };
                    if !good || !inner_possible {
                        world::violation("C06.result", "wrong_result", format!("call {} resolved with {:?} (scripted {:?}, inner done at {:?}, resolved at {})", i, o, c.beh.out, inner_done_at, t.end_us));
                    }
                    let strictly_late = inner_done_at.map(|d| d > deadline_hi).unwrap_or(true);
                    if strictly_late && jump == 0 {
                        world::violation("C06.resolve_instant", "after_deadline", format!("call {} returned the inner result although it finished after the deadline", i));
                    }
                }
                // what happened to the inner future
                if let Some(m) = mine.first() {
                    if timed_out && jump == 0 {
                        let strictly_late = inner_done_at.map(|d| d > deadline_hi).unwrap_or(true);
                        if s.cancel_mode {
                            if strictly_late {
                                if !(m.how == Some(EndHow::Dropped) && m.end_us == Some(deadline_hi)) {
                                    world::violation("C06.cancel_mode", "", format!("call {} timed out at {}us but the inner future ended {:?} at {:?}", i, deadline, m.how, m.end_us));
                                }
                                world::probe("inner_dropped_at_deadline");
                            }
                        } else {
                            match (c.beh.out, m.how, m.end_us) {
                                (Outcome::Never, None, _) => {
                                    world::probe("never_call_kept_running");
                                }
                                (Outcome::Never, h, e) => world::violation("C06.keep_running_mode", "never", format!("call {}: never-completing inner future ended {:?} at {:?}", i, h, e)),
                                (Outcome::Ok, Some(EndHow::Ok), Some(e)) | (Outcome::Err(_), Some(EndHow::Err(_)), Some(e)) if Some(e) == inner_done_at => {
                                    world::probe("inner_completed_after_timeout");
                                }
                                (_, h, e) => world::violation("C06.keep_running_mode", "", format!("call {} timed out at {}us; the inner call should complete in the background at {:?}us but ended {:?} at {:?}", i, deadline, inner_done_at, h, e)),
                            }
                        }
                    }
                }
                if inner_done_at == Some(deadline_hi) {
                    world::probe("latency_equals_timeout");
                }
            }
            Status::Cancelled => {
                // caller went away: in keep-running mode the spawned inner call must still finish
                if !s.cancel_mode && jump == 0 {
                    if let Some(m) = mine.first() {
                        if m.how == Some(EndHow::Dropped) && !m.ended_after_sim {
                            world::violation("C06.keep_running_mode", "caller_cancelled", format!("call {}: caller cancelled, inner future dropped at {:?}", i, m.end_us));
                        }
                    }
                }
            }
            Status::Panicked => {
                world::violation("C06.result", "panic", format!("call {} panicked: {:?}", i, t.panic_msg));
            }
            Status::Unresolved => {
                // only a call without a deadline whose inner call never completes may stay open
                if !(touts[i] == u64::MAX && lat.is_none()) {
                    world::violation("C06.resolve_instant", "never_resolved", format!("call {} (timeout {}us) never resolved", i, tout));
                }
            }
            _ => {}
        }
    }
    let mut w = world::take();
    w.log = log;
    finish(w, ctx, &rep, "C06", nontrivial, outcome_summary(&rep))
}

pub struct C06;

impl Prop for C06 {
    fn id(&self) -> &'static str {
        "C06"
    }
    fn gen(&self, rng: &mut Rng, _t: Tier) -> Value {
        serde_json::to_value(gen(rng)).unwrap()
    }
    fn valid(&self, v: &Value) -> bool {
        parse::<Scn>(v).map(|s| valid(&s)).unwrap_or(false)
    }
    fn run(&self, v: &Value, ctx: &mut RunCtx) -> RunOutput {
        run(&parse::<Scn>(v).unwrap(), ctx)
    }
    fn runs(&self, t: Tier) -> u64 {
        match t {
            Tier::Quick => 20_000,
            Tier::Thorough => 10_000_000,
        }
    }
    fn nontrivial_rule(&self) -> &'static str {
        "scenario = cancellation mode, fixed or per-request timeouts from {0,10,25,50}ms (optionally plus a sub-millisecond part) or Duration::MAX, builder call order, 1-6 concurrent calls on clones with latencies below/at/above the timeout or never, ok/error, caller cancels, clock jumps, panicking listeners, service built inside another runtime's context, at most one busy inner call that uses up tokio's cooperative budget at every poll (tasks then run budgeted, each busy poll costs 1 virtual ms); schedule seeded (select! branch order via tokio rng_seed). Non-trivial: at least one call timed out. Distinct = distinct event-log digest."
    }
    fn real_components(&self) -> Vec<&'static str> {
        vec!["tower-resilience-timelimiter (TimeLimiter, builder, both modes)", "tokio::time::timeout / sleep / select! / spawn / oneshot on the paused clock"]
    }
    fn stub_components(&self) -> Vec<&'static str> {
        vec!["inner service (SimInner: latency by sleeping or by burning the cooperative budget, ok/error/never, Drop guard + completion marker)", "event listeners"]
    }
    fn assumptions(&self) -> Vec<&'static str> {
        vec!["latency == timeout is a tie: either result accepted, instant must still be the deadline", "in clock-jump runs instants may be late by at most the jump and either ready result is accepted", "library-spawned task (keep-running mode) runs on tokio's FIFO queue, perturbed by seeded yields"]
    }
}
