//! C13 = service part (engine A, adaptive.rs) + limit bounds under thread interleavings
//! (engine B, threads.rs). One scenario is one or the other.

use super::common::parse;
use super::{adaptive, threads};
use crate::driver::{Prop, RunCtx, RunOutput, Tier};
use crate::rng::Rng;
use serde::{Deserialize, Serialize};
use serde_json::Value;

#[derive(Clone, Debug, Serialize, Deserialize, PartialEq)]
pub enum Scn {
    Service(adaptive::Scn),
    Threads(threads::Scn13t),
    /// the whole service driven from several threads (engine B)
    SvcThreads(super::svcthreads::ScnT),
}

pub struct C13;

impl Prop for C13 {
    fn id(&self) -> &'static str {
        "C13"
    }
    fn supplement(&self, tier: Tier, seed: u64) -> (Vec<crate::world::Violation>, Value) {
        super::common::msim_supplement("C13", "adaptive", tier, seed)
    }
    fn engine(&self) -> &'static str {
        "asim + tsim (shuttle)"
    }
    fn gen(&self, rng: &mut Rng, _t: Tier) -> Value {
        let s = match rng.below(20) {
            0..=12 => Scn::Service(adaptive::gen(rng)),
            13..=17 => Scn::Threads(threads::gen13t(rng)),
            _ => Scn::SvcThreads(super::svcthreads::gen_adaptive(rng)),
        };
        serde_json::to_value(s).unwrap()
    }
    fn valid(&self, v: &Value) -> bool {
        match parse::<Scn>(v) {
            Some(Scn::Service(s)) => adaptive::valid(&s),
            Some(Scn::Threads(s)) => threads::valid13t(&s),
            Some(Scn::SvcThreads(s)) => super::svcthreads::valid(&s) && matches!(s.kind, super::svcthreads::Kind::Adaptive { .. }),
            None => false,
        }
    }
    fn run(&self, v: &Value, ctx: &mut RunCtx) -> RunOutput {
        match parse::<Scn>(v).unwrap() {
            Scn::Service(s) => adaptive::run(&s, ctx),
            Scn::Threads(s) => threads::run13t(&s, ctx),
            Scn::SvcThreads(s) => super::svcthreads::run(&s, ctx, "C13"),
        }
    }
    fn runs(&self, t: Tier) -> u64 {
        match t {
            Tier::Quick => 20_000,
            Tier::Thorough => 800_000,
        }
    }
    fn nontrivial_rule(&self) -> &'static str {
        "70% service scenarios (engine A): AIMD or Vegas limiter with small limits (or initial/max limit usize::MAX), two services built from one layer, handles asked again for readiness after a wait, a wrapped service with a capacity in one run of five, 2-10 callers on clones polling readiness by hand, inner ok/error/panic/never, slow responses, cancels while waiting/running, a late probe; in_flight() compared with the true count after every step, every poll_ready answer compared with capacity. Non-trivial: a caller was cancelled or panicked. 35% thread scenarios (engine B, shuttle): 2-4 threads of record_success(latency)/record_failure on AimdController/Aimd/Vegas, limit() checked after every atomic step; or 2-3 threads driving clones of the whole AdaptiveService (in-flight counter exact at the end, no spurious Pending). Non-trivial: operations overlapped. Distinct = event-log digest / hash(workload, thread-id sequence)."
    }
    fn real_components(&self) -> Vec<&'static str> {
        vec!["tower-resilience-adaptive (AdaptiveService, AdaptiveLimiterLayer, Aimd, Vegas, Algorithm) with the latency clock on tokio's paused clock (hook)", "tower-resilience-core AimdController (atomics behind the yield hook)"]
    }
    fn stub_components(&self) -> Vec<&'static str> {
        vec!["inner service (SimInner)", "shuttle coroutines as threads (engine B)"]
    }
    fn assumptions(&self) -> Vec<&'static str> {
        vec!["readiness is compared with capacity at the moment of the poll; the caller calls immediately after Ready", "busy-waiting poll_ready is handled as a spinner (1ms virtual quantum)"]
    }
}
