//! C17: fallback never replaces a success and handles exactly the errors it should.
//! Mostly a grid (strategy x predicate x builder order x inner outcome x backup outcome) run
//! inside the simulator with a few concurrent requests; see DESIGN.md section 14 for scope.

use super::common::*;
use crate::driver::{Prop, RunCtx, RunOutput, Tier};
use crate::exec::{run_sim, Cancel, Hooks, LocalFut, Out, Status, TaskDef};
use crate::inner::{Behaviour, EndHow, Outcome, Req, Resp, SimErr, SimInner};
use crate::logq::{inner_calls, notes};
use crate::rng::Rng;
use crate::world;
use serde::{Deserialize, Serialize};
use serde_json::{json, Value};
use tower::{Layer, Service, ServiceExt};
use tower_resilience_fallback::{FallbackError, FallbackLayer};

#[derive(Clone, Debug, Serialize, Deserialize, PartialEq)]
pub struct ReqSpec {
    pub start_ms: u64,
    pub inner: Behaviour,
    pub backup: Behaviour,
}

#[derive(Clone, Debug, Serialize, Deserialize, PartialEq)]
pub struct Scn {
    /// 0 value, 1 value_fn, 2 from_error, 3 from_request_error, 4 backup service, 5 exception
    pub strategy: u8,
    /// 0 none, 1 handles kind 0 only, 2 handles nothing
    pub predicate: u8,
    /// call `.handle()` before the strategy setter
    pub handle_first: bool,
    pub reqs: Vec<ReqSpec>,
    pub knobs: SchedKnobs,
}

pub fn gen(rng: &mut Rng) -> Scn {
    let n = rng.range(1, 4) as usize;
    let reqs = (0..n)
        .map(|_| ReqSpec {
            start_ms: *rng.pick(&[0u64, 0, 1, 5]),
            inner: Behaviour { lat_ms: *rng.pick(&[0u64, 1, 5, 10]), out: *rng.pick(&[Outcome::Ok, Outcome::Err(0), Outcome::Err(0), Outcome::Err(1)]), yields: *rng.pick(&[0u8, 0, 1]) },
            backup: Behaviour { lat_ms: *rng.pick(&[0u64, 1, 5]), out: *rng.pick(&[Outcome::Ok, Outcome::Ok, Outcome::Err(2)]), yields: 0 },
        })
        .collect();
    Scn { strategy: rng.below(6) as u8, predicate: rng.below(3) as u8, handle_first: rng.chance(1, 2), reqs, knobs: SchedKnobs::gen(rng, false, 10) }
}

pub fn valid(s: &Scn) -> bool {
    s.strategy <= 5
        && s.predicate <= 2
        && !s.reqs.is_empty()
        && s.reqs.len() <= 6
        && s.reqs.iter().all(|r| r.start_ms <= 50 && r.inner.lat_ms <= 50 && r.backup.lat_ms <= 50 && matches!(r.inner.out, Outcome::Ok | Outcome::Err(0) | Outcome::Err(1)) && matches!(r.backup.out, Outcome::Ok | Outcome::Err(2)))
        && s.knobs.jumps.is_empty()
}

const VALUE: Resp = Resp { req: 9_999, serial: 777_777, svc: 8 };
const VALUE_FN: Resp = Resp { req: 9_998, serial: 888_888, svc: 8 };

pub fn run(s: &Scn, ctx: &mut RunCtx) -> RunOutput {
    world::reset();
    let cfg = s.knobs.cfg(ctx, 5_000, 0);
    let scn = s.clone();
    let setup = move || {
        world::with(|w| {
            for (i, r) in scn.reqs.iter().enumerate() {
                w.script.by_req.insert((0, i as u32), vec![r.inner]);
                w.script.by_req.insert((1, i as u32), vec![r.backup]);
            }
        });
        let mut b = FallbackLayer::<Req, Resp, SimErr>::builder();
        let pred = scn.predicate;
        macro_rules! handle {
            ($b:expr) => {
                match pred {
                    1 => $b.handle(|e: &SimErr| {
                        world::note("predicate", e.serial as i64, 0);
                        e.kind == 0
                    }),
                    2 => $b.handle(|e: &SimErr| {
                        world::note("predicate", e.serial as i64, 0);
                        false
                    }),
                    _ => $b,
                }
            };
        }
        if scn.handle_first {
            b = handle!(b);
        }
        b = match scn.strategy {
            0 => b.value(VALUE),
            1 => b.value_fn(|| {
                world::note("fb_value_fn", 0, 0);
                VALUE_FN
            }),
            2 => b.from_error(|e: &SimErr| {
                world::note("fb_from_error", e.serial as i64, 0);
                Resp { req: e.req, serial: e.serial, svc: 7 }
            }),
            3 => b.from_request_error(|r: &Req, e: &SimErr| {
                world::note("fb_from_req_error", e.serial as i64, r.id as i64);
                Resp { req: r.id, serial: e.serial, svc: 6 }
            }),
            4 => {
                let backup = SimInner::new(1);
                // the backup *function* does its observable work when it is invoked (not lazily
                // inside the returned future): invoking it for a request that needs no fallback
                // is visible in the backup's call log
                b.service(move |req: Req| {
                    let mut bk = backup.clone();
                    let fut = bk.call(req);
                    async move { fut.await }
                })
            }
            _ => b.exception(|e: SimErr| {
                world::note("fb_exception", e.serial as i64, 0);
                SimErr { kind: 99, ..e }
            }),
        };
        if !scn.handle_first {
            b = handle!(b);
        }
        let layer = b.build();
        let base = layer.layer(SimInner::new(0));
        let mut defs = vec![];
        for (i, r) in scn.reqs.iter().enumerate() {
            let svc = base.clone();
            let make: Box<dyn FnOnce() -> LocalFut> = Box::new(move || {
                Box::pin(async move {
                    let mut svc = svc;
                    let r = match svc.ready().await {
                        Ok(sv) => sv.call(Req { id: i as u32, key: 0 }).await,
                        Err(e) => Err(e),
                    };
                    // a copy of the error (what a coalescing or caching layer above would hand
                    // out) is the same error
                    if let Err(e) = &r {
                        let same = match (e, &e.clone()) {
                            (FallbackError::Inner(a), FallbackError::Inner(b)) => a == b,
                            (FallbackError::FallbackFailed(a), FallbackError::FallbackFailed(b)) => a == b,
                            _ => false,
                        };
                        if !same {
                            world::violation("C17.error_copy", "", format!("request {}: a clone of the returned error {:?} is {:?}", i, e, e.clone()));
                        }
                    }
                    match r {
                        Ok(x) => Out::ok(x),
                        Err(FallbackError::Inner(e)) => Out::err("Inner", Some(e)),
                        Err(FallbackError::FallbackFailed(e)) => Out::err("FallbackFailed", Some(e)),
                    }
                })
            });
            defs.push(TaskDef { start_ms: r.start_ms, make, cancel: Cancel::Never });
        }
        defs
    };
    let mut step = |_k| {};
    let mut idle = || {};
    let rep = run_sim(cfg, &mut ctx.chooser, setup, Hooks { step: &mut step, idle: &mut idle });
    let log = world::with(|w| std::mem::take(&mut w.log));
    let calls = inner_calls(&log);
    let sname = ["value", "value_fn", "from_error", "from_request_error", "service", "exception"][s.strategy as usize];
    let mut expected_value_fn_calls = 0usize;
    let mut any_handled = false;
    for (i, t) in rep.tasks.iter().enumerate() {
        let r = &s.reqs[i];
        let inner: Vec<_> = calls.iter().filter(|c| c.svc == 0 && c.req == i as u32).collect();
        let backup: Vec<_> = calls.iter().filter(|c| c.svc == 1 && c.req == i as u32).collect();
        if t.status != Status::Resolved {
            world::violation("C17.strategy_result", "unresolved", format!("request {} did not resolve: {:?} {:?}", i, t.status, t.panic_msg));
            continue;
        }
        let o = t.out.as_ref().unwrap();
        if inner.len() != 1 {
            world::violation("C17.success_untouched", "inner_calls", format!("request {}: inner service called {} times", i, inner.len()));
            continue;
        }
        let ic = inner[0];
        let fb_by_serial = |tag: &'static str| notes(&log, tag).filter(|(_, a, _)| *a == ic.serial as i64).count();
        match r.inner.out {
            Outcome::Ok => {
                let same = o.ok.as_ref().map(|x| x.serial == ic.serial && x.req == i as u32 && x.svc == 0).unwrap_or(false);
                if !same {
                    world::violation("C17.success_untouched", sname, format!("request {}: inner succeeded with serial {} but the caller got {:?}", i, ic.serial, o));
                }
                if !backup.is_empty() {
                    world::violation("C17.success_untouched", "backup_called", format!("request {}: backup called although the inner call succeeded", i));
                }
            }
            Outcome::Err(kind) => {
                let handled = match s.predicate {
                    0 => true,
                    1 => kind == 0,
                    _ => false,
                };
                let fb_calls = fb_by_serial("fb_from_error") + fb_by_serial("fb_from_req_error") + fb_by_serial("fb_exception");
                if !handled {
                    let same = o.err == Some("Inner") && o.inner.as_ref().map(|e| e.serial == ic.serial && e.kind == kind && e.req == i as u32).unwrap_or(false);
                    if !same || fb_calls > 0 || !backup.is_empty() {
                        world::violation(
                            "C17.predicate_gate",
                            sname,
                            format!("request {}: the predicate refuses error kind {} (handle_first={}), yet the caller got {:?} (fallback closures run: {}, backup calls: {})", i, kind, s.handle_first, o, fb_calls, backup.len()),
                        );
                    }
                } else {
                    any_handled = true;
                    let good = match s.strategy {
                        0 => o.ok.as_ref() == Some(&VALUE),
                        1 => {
                            expected_value_fn_calls += 1;
                            o.ok.as_ref() == Some(&VALUE_FN)
                        }
                        2 => o.ok.as_ref() == Some(&Resp { req: i as u32, serial: ic.serial, svc: 7 }) && fb_calls == 1,
                        3 => o.ok.as_ref() == Some(&Resp { req: i as u32, serial: ic.serial, svc: 6 }) && notes(&log, "fb_from_req_error").any(|(_, a, b)| a == ic.serial as i64 && b == i as i64) && fb_calls == 1,
                        4 => {
                            if backup.len() != 1 {
                                world::violation("C17.backup_called_once_with_request", "", format!("request {}: backup called {} times", i, backup.len()));
                                true
                            } else {
                                let bc = backup[0];
                                match (r.backup.out, bc.how) {
                                    (Outcome::Ok, Some(EndHow::Ok)) => o.ok.as_ref().map(|x| x.serial == bc.serial && x.svc == 1 && x.req == i as u32).unwrap_or(false),
                                    (Outcome::Err(k), Some(EndHow::Err(_))) => {
                                        let g = o.err == Some("FallbackFailed") && o.inner.as_ref().map(|e| e.serial == bc.serial && e.kind == k).unwrap_or(false);
                                        if !g {
                                            world::violation("C17.backup_error_surfaces", "", format!("request {}: backup failed with serial {} but the caller got {:?}", i, bc.serial, o));
                                        }
                                        true
                                    }
                                    _ => false,
                                }
                            }
                        }
                        _ => o.err == Some("Inner") && o.inner.as_ref().map(|e| e.serial == ic.serial && e.kind == 99).unwrap_or(false) && fb_calls == 1,
                    };
                    if !good {
                        world::violation("C17.strategy_result", sname, format!("request {}: inner error serial {} kind {} handled by strategy {}, caller got {:?}", i, ic.serial, kind, sname, o));
                    }
                }
            }
            _ => {}
        }
    }
    if s.strategy == 1 {
        let n = notes(&log, "fb_value_fn").count();
        if n != expected_value_fn_calls {
            world::violation("C17.predicate_gate", "value_fn_calls", format!("value_fn invoked {} times, {} handled errors", n, expected_value_fn_calls));
        }
    }
    let class_sig = (s.strategy as u64) * 1000 + (s.predicate as u64) * 100 + (s.handle_first as u64) * 10;
    world::note("grid_cell", class_sig as i64, 0);
    let mut w = world::take();
    w.log = log;
    finish(w, ctx, &rep, "C17", any_handled, json!({"strategy": sname, "predicate": s.predicate, "handle_first": s.handle_first}))
}

pub struct C17;

impl Prop for C17 {
    fn id(&self) -> &'static str {
        "C17"
    }
    fn gen(&self, rng: &mut Rng, _t: Tier) -> Value {
        serde_json::to_value(gen(rng)).unwrap()
    }
    fn valid(&self, v: &Value) -> bool {
        parse::<Scn>(v).map(|s| valid(&s)).unwrap_or(false)
    }
    fn run(&self, v: &Value, ctx: &mut RunCtx) -> RunOutput {
        run(&parse::<Scn>(v).unwrap(), ctx)
    }
    fn runs(&self, t: Tier) -> u64 {
        match t {
            Tier::Quick => 10_000,
            Tier::Thorough => 3_000_000,
        }
    }
    fn nontrivial_rule(&self) -> &'static str {
        "scenario = strategy (6) x predicate (none / kind 0 only / nothing) x builder order (handle before/after the strategy) x 1-4 concurrent requests with inner ok / error kind 0 / kind 1 and backup ok / error, small latencies; result compared with a pure reference function, fallback closures and backup calls logged. Non-trivial: at least one error was handled by the strategy. Distinct = distinct event-log digest. Honest scope: almost no schedule or time in this property; assurance comes from covering the small grid."
    }
    fn real_components(&self) -> Vec<&'static str> {
        vec!["tower-resilience-fallback (Fallback, FallbackLayer builder, all six strategies, handle predicate)"]
    }
    fn stub_components(&self) -> Vec<&'static str> {
        vec!["inner service and backup service (SimInner svc 0 / svc 1)", "strategy closures (log and build serial-stamped values)"]
    }
}
