//! C20: layers are transparent when not triggered, honour the Tower readiness contract towards
//! the wrapped service (every call, incl. retries and hedges, goes to an instance on which
//! readiness was observed since its previous call; readiness errors surface as readiness
//! errors) and event listeners only observe.

use super::common::*;
use crate::driver::{Prop, RunCtx, RunOutput, Tier};
use crate::exec::{run_sim, Cancel, Chooser, Hooks, LocalFut, Out, SimCfg, Status, TaskDef};
use crate::inner::{Behaviour, Outcome, Req, Resp, SimErr, SimInner, SimPanic, READY_ERR_KIND};
use crate::logq::{inner_calls, notes};
use crate::rng::Rng;
use crate::world::{self, Violation};
use futures::future::BoxFuture;
use serde::{Deserialize, Serialize};
use serde_json::{json, Value};
use std::task::{Context, Poll};
use std::time::Duration;
use tower::util::BoxCloneService;
use tower::{Layer, Service, ServiceExt};

#[derive(Clone, Debug, PartialEq)]
pub struct UErr {
    /// error variants added by the layers, innermost first
    pub path: Vec<&'static str>,
    pub inner: Option<SimErr>,
}

impl UErr {
    fn new(tag: &'static str) -> Self {
        UErr { path: vec![tag], inner: None }
    }
    fn wrap(mut self, tag: &'static str) -> Self {
        self.path.push(tag);
        self
    }
}
impl std::fmt::Display for UErr {
    fn fmt(&self, f: &mut std::fmt::Formatter<'_>) -> std::fmt::Result {
        write!(f, "uerr{:?}", self.path)
    }
}
impl std::error::Error for UErr {}

type Bx = BoxCloneService<Req, Resp, UErr>;

/// Transparent probe between two layers: records whether the layer above called it on an
/// instance it had seen ready, then heals (readies itself) so that blame does not cascade.
struct Probe {
    inner: Bx,
    pos: i64,
    ready: bool,
}

impl Clone for Probe {
    fn clone(&self) -> Self {
        Probe { inner: self.inner.clone(), pos: self.pos, ready: false }
    }
}

impl Service<Req> for Probe {
    type Response = Resp;
    type Error = UErr;
    type Future = BoxFuture<'static, Result<Resp, UErr>>;
    fn poll_ready(&mut self, cx: &mut Context<'_>) -> Poll<Result<(), UErr>> {
        match self.inner.poll_ready(cx) {
            Poll::Ready(Ok(())) => {
                self.ready = true;
                Poll::Ready(Ok(()))
            }
            other => other,
        }
    }
    fn call(&mut self, req: Req) -> Self::Future {
        let ok = std::mem::replace(&mut self.ready, false);
        world::note("probe_call", self.pos, ok as i64);
        if ok {
            Box::pin(self.inner.call(req))
        } else {
            let mut svc = self.inner.clone();
            Box::pin(async move { svc.ready().await?.call(req).await })
        }
    }
}

#[derive(Clone, Copy, Debug, Serialize, Deserialize, PartialEq, Eq, Hash)]
pub enum L {
    Bulkhead,
    RateLimiter,
    CircuitBreaker,
    CircuitBreakerFallback,
    Retry,
    TimeLimiter,
    TimeLimiterNoCancel,
    Cache,
    Fallback,
    Hedge,
    Reconnect,
    Adaptive,
    Coalesce,
    Executor,
    Chaos,
}

impl L {
    fn name(&self) -> &'static str {
        match self {
            L::Bulkhead => "bulkhead",
            L::RateLimiter => "ratelimiter",
            L::CircuitBreaker => "circuitbreaker",
            L::CircuitBreakerFallback => "circuitbreaker_with_fallback",
            L::Retry => "retry",
            L::TimeLimiter => "timelimiter",
            L::TimeLimiterNoCancel => "timelimiter_no_cancel",
            L::Cache => "cache",
            L::Fallback => "fallback",
            L::Hedge => "hedge",
            L::Reconnect => "reconnect",
            L::Adaptive => "adaptive",
            L::Coalesce => "coalesce",
            L::Executor => "executor",
            L::Chaos => "chaos",
        }
    }
    /// acceptable pass-through tags for an inner error
    fn pass_tags(&self) -> &'static [&'static str] {
        match self {
            L::Bulkhead => &["bulkhead.Inner"],
            L::RateLimiter => &["ratelimiter.Inner"],
            L::CircuitBreaker | L::CircuitBreakerFallback => &["circuitbreaker.Inner"],
            L::Retry | L::Chaos => &[],
            L::TimeLimiter | L::TimeLimiterNoCancel => &["timelimiter.Inner"],
            L::Cache => &["cache.Inner"],
            L::Fallback => &["fallback.Inner"],
            L::Hedge => &["hedge.Inner", "hedge.AllAttemptsFailed"],
            L::Reconnect => &["reconnect.ServiceError"],
            L::Adaptive => &["adaptive.Service"],
            L::Coalesce => &["coalesce.Service"],
            L::Executor => &["executor.Service"],
        }
    }
    fn has_listeners(&self) -> bool {
        matches!(self, L::Bulkhead | L::RateLimiter | L::CircuitBreaker | L::Retry | L::TimeLimiter | L::Cache | L::Fallback | L::Hedge | L::Chaos)
    }
}

pub const ALL_LAYERS: [L; 15] = [
    L::Bulkhead,
    L::RateLimiter,
    L::CircuitBreaker,
    L::CircuitBreakerFallback,
    L::Retry,
    L::TimeLimiter,
    L::TimeLimiterNoCancel,
    L::Cache,
    L::Fallback,
    L::Hedge,
    L::Reconnect,
    L::Adaptive,
    L::Coalesce,
    L::Executor,
    L::Chaos,
];

fn stacks() -> Vec<Vec<L>> {
    use L::*;
    vec![
        vec![TimeLimiter, Retry],
        vec![TimeLimiter, Retry, CircuitBreaker, TimeLimiter],
        vec![Fallback, TimeLimiter, Retry, CircuitBreaker, TimeLimiter],
        vec![TimeLimiter, Retry, CircuitBreaker, Hedge, TimeLimiter],
        vec![TimeLimiter, Retry, Bulkhead],
        vec![TimeLimiter, CircuitBreaker, Bulkhead],
        vec![TimeLimiter, Retry, CircuitBreaker],
        vec![TimeLimiter, Adaptive, Retry],
        vec![TimeLimiter, Hedge],
        vec![Fallback, TimeLimiter, CircuitBreaker],
        vec![TimeLimiter, Coalesce, CircuitBreaker],
        vec![Fallback, Cache, TimeLimiter, CircuitBreaker, Retry, TimeLimiter],
        vec![RateLimiter, Bulkhead, TimeLimiter],
        vec![CircuitBreaker, Retry],
        vec![Retry, CircuitBreaker],
        vec![Fallback, CircuitBreaker],
        vec![Reconnect, TimeLimiter],
        vec![Executor, Bulkhead],
        vec![Chaos, Retry, TimeLimiterNoCancel],
    ]
}

#[derive(Clone, Debug, Serialize, Deserialize, PartialEq)]
pub struct Scn {
    /// outermost first
    pub stack: Vec<L>,
    /// 0 transparency / readiness with the strict inner service, 1 tower Buffer below a single
    /// layer, 2 tower ConcurrencyLimit below a single layer, 3 listener differential
    pub mode: u8,
    /// retry / hedge / reconnect configured so that they do retry / hedge
    pub triggering: bool,
    /// scripted readiness answers of the innermost service (0 ready, 1 pending, 2 error)
    pub ready_script: Vec<u8>,
    /// bulkhead with one slot and unbounded waiting, rate limiter with one permit per 5ms and a
    /// long timeout: requests queue inside the layer but none is rejected
    #[serde(default)]
    pub pressure: bool,
    /// retry / reconnect back off for zero time
    #[serde(default)]
    pub zero_backoff: bool,
    /// fresh clones of the innermost service need this long before they are ready
    #[serde(default)]
    pub clone_warmup_ms: u64,
    /// the shared service is polled ready once (and not called) before the callers clone it
    #[serde(default)]
    pub primed_template: bool,
    /// the other way of writing a configuration that must not trigger: "no limit" given as
    /// Duration::MAX (bulkhead wait, rate-limiter timeout, breaker open wait, time-limiter
    /// timeout), error transformation + declining predicate (fallback), default reconnect
    /// predicate
    #[serde(default)]
    pub alt: bool,
    /// mode 3: what the disturbing listener does: false = it panics, true = it calls back into
    /// the service it listens to
    #[serde(default)]
    pub reentrant: bool,
    /// the first listener of every hook blocks the thread for 7 ms (a slow log sink) instead of
    /// panicking; only in configurations in which nothing depends on a few milliseconds
    #[serde(default)]
    pub blocking: bool,
    /// requests share two keys, so that a cache in the stack has hits (only with `reentrant`;
    /// the transparency rules do not apply to such a run)
    #[serde(default)]
    pub dup_keys: bool,
    /// requests during whose inner call the innermost service sends another request (id 500+i,
    /// a key of its own) back through the whole stack from inside its `call()` and awaits it
    /// before it goes on. Only where that cannot be a deadlock of the caller's own making (no
    /// Buffer / ConcurrencyLimit underneath, no queueing configuration) and readiness is plain
    #[serde(default)]
    pub inner_reentrant: Vec<u32>,
    /// per request: (start_ms, outcome script for the inner calls of that request)
    pub reqs: Vec<(u64, Vec<Behaviour>)>,
    pub knobs: SchedKnobs,
}

pub fn gen(rng: &mut Rng) -> Scn {
    let mode = *rng.pick(&[0u8, 0, 0, 0, 1, 2, 3]);
    let stack = if mode == 1 || mode == 2 || rng.chance(1, 2) {
        vec![*rng.pick(&ALL_LAYERS)]
    } else {
        rng.pick(&stacks()).clone()
    };
    let stack = if mode == 3 && !stack.iter().any(|l| l.has_listeners()) { vec![*rng.pick(&[L::Bulkhead, L::RateLimiter, L::CircuitBreaker, L::Retry, L::TimeLimiter, L::Cache, L::Fallback, L::Hedge, L::Chaos])] } else { stack };
    let triggering = rng.chance(1, 3) && stack.iter().any(|l| matches!(l, L::Retry | L::Hedge | L::Reconnect | L::CircuitBreaker | L::CircuitBreakerFallback));
    let n = rng.range(1, 8) as usize;
    let sequential = stack.contains(&L::Coalesce) || stack.contains(&L::Cache) || rng.chance(1, 2);
    let mut t = 0u64;
    let reqs: Vec<(u64, Vec<Behaviour>)> = (0..n)
        .map(|_| {
            let len = if triggering { rng.range(1, 3) } else { 1 } as usize;
            let script = (0..len)
                .map(|k| Behaviour {
                    lat_ms: *rng.pick(&[0u64, 0, 1, 5]),
                    out: if triggering && k + 1 < len {
                        Outcome::Err(0)
                    } else if rng.chance(1, 4) {
                        Outcome::Err(if triggering { 1 } else { rng.below(2) as u8 })
                    } else {
                        Outcome::Ok
                    },
                    yields: *rng.pick(&[0u8, 0, 1]),
                })
                .collect();
            if sequential {
                t += 40;
            } else {
                t = *rng.pick(&[0u64, 0, 1, 5, 10]);
            }
            (t, script)
        })
        .collect();
    let ready_script = if mode == 0 && rng.chance(1, 3) {
        (0..rng.range(1, 6)).map(|_| *rng.pick(&[0u8, 1, 1, 0, 2])).collect()
    } else {
        vec![]
    };
    let mut knobs = SchedKnobs::gen(rng, false, 50);
    knobs.jumps.clear();
    let pressure = rng.chance(1, 3) && stack.iter().any(|l| matches!(l, L::Bulkhead | L::RateLimiter));
    let zero_backoff = triggering && rng.chance(1, 3);
    let clone_warmup_ms = if mode == 0 && rng.chance(1, 5) { *rng.pick(&[1u64, 5, 20]) } else { 0 };
    let primed_template = mode == 0 && rng.chance(1, 4);
    let alt = rng.chance(1, 3);
    // (extra traffic from a listener changes what a breaker that really opens, a retry that
    // really retries ... will do next: only configurations that stay passive)
    let reentrant = mode == 3 && !triggering && rng.chance(1, 3);
    let dup_keys = reentrant && stack.contains(&L::Cache);
    let blocking = mode == 3 && !triggering && !pressure && !reentrant && rng.chance(1, 3);
    let inner_reentrant = if (mode == 0 || mode == 3) && !triggering && !pressure && !dup_keys && ready_script.is_empty() && clone_warmup_ms == 0 && !primed_template && rng.chance(1, 5) {
        (0..rng.range(1, 2)).map(|_| rng.below(reqs.len() as u64) as u32).collect()
    } else {
        vec![]
    };
    Scn { stack, mode, triggering, ready_script, pressure, zero_backoff, clone_warmup_ms, primed_template, alt, reentrant, blocking, dup_keys, inner_reentrant, reqs, knobs }
}

pub fn valid(s: &Scn) -> bool {
    !s.stack.is_empty()
        && s.stack.len() <= 7
        && s.mode <= 3
        && ((s.mode != 1 && s.mode != 2) || s.stack.len() == 1)
        && (s.mode != 3 || s.stack.iter().any(|l| l.has_listeners()))
        && !s.reqs.is_empty()
        && s.reqs.len() <= 10
        && s.reqs.iter().all(|(t, sc)| *t <= 1000 && !sc.is_empty() && sc.len() <= 4 && sc.iter().all(|b| b.lat_ms <= 20 && b.yields <= 3 && matches!(b.out, Outcome::Ok | Outcome::Err(0) | Outcome::Err(1))))
        && (s.triggering || s.reqs.iter().all(|(_, sc)| sc.len() == 1))
        && (!s.triggering || s.stack.iter().any(|l| matches!(l, L::Retry | L::Hedge | L::Reconnect | L::CircuitBreaker | L::CircuitBreakerFallback)))
        && s.clone_warmup_ms <= 50
        && (s.mode == 0 || (s.clone_warmup_ms == 0 && !s.primed_template))
        && s.ready_script.len() <= 8
        && s.ready_script.iter().all(|x| *x <= 2)
        && (s.mode == 0 || s.ready_script.is_empty())
        && (!s.reentrant || (s.mode == 3 && !s.triggering))
        && (!s.dup_keys || s.reentrant)
        && (!s.blocking || (s.mode == 3 && !s.triggering && !s.pressure && !s.reentrant))
        && (s.inner_reentrant.is_empty()
            || ((s.mode == 0 || s.mode == 3) && !s.triggering && !s.pressure && !s.dup_keys && s.ready_script.is_empty() && s.clone_warmup_ms == 0 && !s.primed_template && s.inner_reentrant.len() <= 3 && s.inner_reentrant.iter().all(|i| (*i as usize) < s.reqs.len())))
        && s.knobs.jumps.is_empty()
}

thread_local! {
    /// the finished stack, for listeners that call back into it
    static REENTER: std::cell::RefCell<Option<Bx>> = const { std::cell::RefCell::new(None) };
    static REENTER_DEPTH: std::cell::Cell<u32> = const { std::cell::Cell::new(0) };
    static REENTER_N: std::cell::Cell<u32> = const { std::cell::Cell::new(0) };
}

/// What the first of the two listeners of every hook does: 0 nothing, 1 panic, 2 call back into
/// the service it is listening to (a clone, polled once with a no-op waker: it never waits).
fn lst(layer: i64, ev: i64, first_does: u8, second: bool) {
    // two listeners are registered per hook: this is called by both
    if !second {
        if first_does == 1 {
            world::fault("listener_panic");
            std::panic::panic_any(SimPanic);
        }
        if first_does == 3 && world::with(|w| w.blocked_ms) < 280 {
            world::block_for(7);
        }
        if first_does == 2 && REENTER_DEPTH.with(|d| d.get()) == 0 && REENTER_N.with(|n| n.get()) < 6 {
            let svc = REENTER.with(|r| r.borrow().clone());
            if let Some(mut svc) = svc {
                REENTER_DEPTH.with(|d| d.set(1));
                let k = REENTER_N.with(|n| {
                    n.set(n.get() + 1);
                    n.get()
                });
                world::fault("listener_reentered");
                let w = futures::task::noop_waker();
                let mut cx = Context::from_waker(&w);
                if let Poll::Ready(Ok(())) = svc.poll_ready(&mut cx) {
                    let mut f = svc.call(Req { id: 900 + k, key: 1900 + k });
                    let _ = std::future::Future::poll(std::pin::Pin::new(&mut f), &mut cx);
                    drop(f);
                }
                REENTER_DEPTH.with(|d| d.set(0));
            }
        }
    } else {
        world::note("listener", layer, ev);
    }
}

/// Wraps `inner` with one real layer in its (non-)triggering configuration and maps the layer's
/// error type into `UErr`.
#[allow(clippy::too_many_arguments)]
fn wrap(kind: L, pos: i64, trig: bool, pressure: bool, zero_backoff: bool, alt: bool, listeners: u8, inner: Bx) -> Bx {
    let backoff = Duration::from_millis(if zero_backoff { 0 } else { 1 });
    let pf: u8 = match listeners {
        2 => 1,
        3 => 2,
        4 => 3,
        _ => 0,
    };
    let want_l = listeners > 0;
    match kind {
        L::Bulkhead => {
            use tower_resilience_bulkhead::{BulkheadError, BulkheadLayer, BulkheadServiceError};
            let mut b = BulkheadLayer::builder().max_concurrent_calls(if pressure { 1 } else { 64 });
            if alt {
                b = b.max_wait_duration(Duration::MAX);
            }
            if want_l {
                b = b
                    .on_call_permitted(move |_| lst(pos, 1, pf, false))
                    .on_call_permitted(move |_| lst(pos, 1, pf, true))
                    .on_call_finished(move |_| lst(pos, 2, pf, false))
                    .on_call_finished(move |_| lst(pos, 2, pf, true))
                    .on_call_failed(move |_| lst(pos, 3, pf, false))
                    .on_call_failed(move |_| lst(pos, 3, pf, true));
            }
            BoxCloneService::new(b.build().layer(inner).map_err(|e| match e {
                BulkheadServiceError::Inner(u) => u.wrap("bulkhead.Inner"),
                BulkheadServiceError::Bulkhead(BulkheadError::Timeout) => UErr::new("bulkhead.Timeout"),
                BulkheadServiceError::Bulkhead(_) => UErr::new("bulkhead.Full"),
            }))
        }
        L::RateLimiter => {
            use tower_resilience_ratelimiter::{RateLimiterLayer, RateLimiterServiceError};
            let mut b = if pressure {
                RateLimiterLayer::builder().limit_for_period(1).refresh_period(Duration::from_millis(5)).timeout_duration(Duration::from_secs(10))
            } else {
                RateLimiterLayer::builder().limit_for_period(10_000).refresh_period(Duration::from_secs(1)).timeout_duration(if alt { Duration::MAX } else { Duration::from_millis(0) })
            };
            if want_l {
                b = b.on_permit_acquired(move |_| lst(pos, 1, pf, false)).on_permit_acquired(move |_| lst(pos, 1, pf, true));
            }
            BoxCloneService::new(b.build().layer(inner).map_err(|e| match e {
                RateLimiterServiceError::Inner(u) => u.wrap("ratelimiter.Inner"),
                RateLimiterServiceError::RateLimited => UErr::new("ratelimiter.RateLimited"),
            }))
        }
        L::CircuitBreaker | L::CircuitBreakerFallback => {
            use tower_resilience_circuitbreaker::{CircuitBreakerError, CircuitBreakerLayer};
            let mut b = if trig {
                // opens at the first failure, probes again 5ms later: the trial call, too, must go
                // to an instance that was seen ready
                CircuitBreakerLayer::builder().sliding_window_size(1).minimum_number_of_calls(1).failure_rate_threshold(1.0).wait_duration_in_open(Duration::from_millis(5)).permitted_calls_in_half_open(1)
            } else {
                CircuitBreakerLayer::builder().sliding_window_size(1000).minimum_number_of_calls(1000).failure_rate_threshold(1.0)
            };
            if alt && !trig {
                b = b.wait_duration_in_open(Duration::MAX);
            }
            if want_l {
                b = b
                    .on_call_permitted(move |_| lst(pos, 1, pf, false))
                    .on_call_permitted(move |_| lst(pos, 1, pf, true))
                    .on_success(move |_| lst(pos, 2, pf, false))
                    .on_success(move |_| lst(pos, 2, pf, true))
                    .on_failure(move |_| lst(pos, 3, pf, false))
                    .on_failure(move |_| lst(pos, 3, pf, true));
            }
            let svc = b.build().layer(inner);
            let f = |e| match e {
                CircuitBreakerError::Inner(u) => UErr::wrap(u, "circuitbreaker.Inner"),
                CircuitBreakerError::OpenCircuit => UErr::new("circuitbreaker.OpenCircuit"),
            };
            if kind == L::CircuitBreaker {
                BoxCloneService::new(svc.map_err(f))
            } else {
                BoxCloneService::new(
                    svc.with_fallback(|r: Req| -> BoxFuture<'static, Result<Resp, UErr>> { Box::pin(async move { Ok(Resp { req: r.id, serial: 5_000_000, svc: 9 }) }) }).map_err(f),
                )
            }
        }
        L::Retry => {
            use tower_resilience_retry::RetryLayer;
            let mut b = RetryLayer::<Req, UErr>::builder().max_attempts(3).fixed_backoff(backoff);
            b = if trig { b.retry_on(|e: &UErr| e.inner.as_ref().map(|x| x.kind == 0).unwrap_or(false)) } else { b.retry_on(|_: &UErr| false) };
            if want_l {
                b = b
                    .on_success(move |_| lst(pos, 1, pf, false))
                    .on_success(move |_| lst(pos, 1, pf, true))
                    .on_retry(move |_, _| lst(pos, 2, pf, false))
                    .on_retry(move |_, _| lst(pos, 2, pf, true))
                    .on_error(move |_| lst(pos, 3, pf, false))
                    .on_error(move |_| lst(pos, 3, pf, true))
                    .on_ignored_error(move || lst(pos, 4, pf, false))
                    .on_ignored_error(move || lst(pos, 4, pf, true));
            }
            BoxCloneService::new(b.build().layer(inner))
        }
        L::TimeLimiter | L::TimeLimiterNoCancel => {
            use tower_resilience_timelimiter::{TimeLimiterError, TimeLimiterLayer};
            let mut b = TimeLimiterLayer::builder().timeout_duration(if alt { Duration::MAX } else { Duration::from_secs(10) }).cancel_running_future(kind == L::TimeLimiter);
            if want_l {
                b = b
                    .on_success(move |_| lst(pos, 1, pf, false))
                    .on_success(move |_| lst(pos, 1, pf, true))
                    .on_error(move |_| lst(pos, 2, pf, false))
                    .on_error(move |_| lst(pos, 2, pf, true));
            }
            BoxCloneService::new(b.build().layer(inner).map_err(|e| match e {
                TimeLimiterError::Inner(u) => UErr::wrap(u, "timelimiter.Inner"),
                TimeLimiterError::Timeout => UErr::new("timelimiter.Timeout"),
            }))
        }
        L::Cache => {
            use tower_resilience_cache::{CacheError, CacheLayer};
            let mut b = CacheLayer::<Req, u32>::builder().max_size(64).key_extractor(|r: &Req| r.key);
            if want_l {
                b = b.on_miss(move || lst(pos, 1, pf, false)).on_miss(move || lst(pos, 1, pf, true)).on_hit(move || lst(pos, 2, pf, false)).on_hit(move || lst(pos, 2, pf, true));
            }
            BoxCloneService::new(b.build().layer(inner).map_err(|e| match e {
                CacheError::Inner(u) => UErr::wrap(u, "cache.Inner"),
            }))
        }
        L::Fallback => {
            use tower_resilience_fallback::{FallbackError, FallbackLayer};
            let mut b = if alt {
                FallbackLayer::<Req, Resp, UErr>::builder().exception(|e: UErr| e.wrap("fallback.transformed")).handle(|_: &UErr| false)
            } else {
                FallbackLayer::<Req, Resp, UErr>::builder().value(Resp { req: 0, serial: 6_000_000, svc: 9 }).handle(|_: &UErr| false)
            };
            if want_l {
                b = b.on_event(move |_| lst(pos, 1, pf, false)).on_event(move |_| lst(pos, 1, pf, true));
            }
            BoxCloneService::new(b.build().layer(inner).map_err(|e| match e {
                FallbackError::Inner(u) => UErr::wrap(u, "fallback.Inner"),
                FallbackError::FallbackFailed(u) => UErr::wrap(u, "fallback.FallbackFailed"),
            }))
        }
        L::Hedge => {
            use tower_resilience_core::FnListener;
            use tower_resilience_hedge::{HedgeError, HedgeEvent, HedgeLayer};
            let mut b = HedgeLayer::builder().max_hedged_attempts(2).delay(if trig { Duration::from_millis(1) } else { Duration::from_secs(10) });
            if want_l {
                b = b.on_event(FnListener::new(move |_: &HedgeEvent| lst(pos, 1, pf, false))).on_event(FnListener::new(move |_: &HedgeEvent| lst(pos, 1, pf, true)));
            }
            BoxCloneService::new(b.build().layer(inner).map_err(|e| match e {
                HedgeError::Inner(u) => UErr::wrap(u, "hedge.Inner"),
                HedgeError::AllAttemptsFailed(u) => UErr::wrap(u, "hedge.AllAttemptsFailed"),
            }))
        }
        L::Reconnect => {
            use tower_resilience_reconnect::{ReconnectConfig, ReconnectLayer, ReconnectPolicy};
            let mut b = ReconnectConfig::builder().policy(ReconnectPolicy::fixed(backoff)).max_attempts(3);
            b = if trig && alt {
                // default predicate: every error counts as a connection failure
                b
            } else if trig {
                b.reconnect_predicate(|e: &dyn std::error::Error| e.to_string().contains("kind0"))
            } else {
                b.reconnect_predicate(|_: &dyn std::error::Error| false)
            };
            // the predicate sees the error through Display: give UErr a recognisable rendering
            let svc = ReconnectLayer::new(b.build()).layer(inner.map_err(|u: UErr| RErr(u)));
            BoxCloneService::new(svc.map_err(|e| {
                let s = e.to_string();
                let tag = if s.starts_with("max reconnection attempts") {
                    "reconnect.MaxAttemptsExceeded"
                } else if s.starts_with("connection failed (no retry)") {
                    "reconnect.ConnectionFailedNoRetry"
                } else if s.starts_with("connection failed") {
                    "reconnect.ConnectionFailed"
                } else {
                    "reconnect.ServiceError"
                };
                match std::error::Error::source(&e).and_then(|x| x.downcast_ref::<RErr>()) {
                    Some(r) => r.0.clone().wrap(tag),
                    None => UErr::new(tag),
                }
            }))
        }
        L::Adaptive => {
            use tower_resilience_adaptive::{AdaptiveError, AdaptiveLimiterLayer, Aimd};
            let alg = Aimd::builder().initial_limit(64).max_limit(64).min_limit(64).latency_threshold(Duration::from_secs(5)).build();
            BoxCloneService::new(AdaptiveLimiterLayer::new(alg).layer(inner).map_err(|e| match e {
                AdaptiveError::Service(u) => UErr::wrap(u, "adaptive.Service"),
                _ => UErr::new("adaptive.LimitReached"),
            }))
        }
        L::Coalesce => {
            use tower_resilience_coalesce::{CoalesceError, CoalesceLayer};
            fn key(r: &Req) -> u32 {
                r.id
            }
            BoxCloneService::new(CoalesceLayer::new(key as fn(&Req) -> u32).layer(inner).map_err(|e| match e {
                CoalesceError::Service(u) => UErr::wrap(u, "coalesce.Service"),
                CoalesceError::LeaderCancelled => UErr::new("coalesce.LeaderCancelled"),
                CoalesceError::RecvError => UErr::new("coalesce.RecvError"),
            }))
        }
        L::Executor => {
            use tower_resilience_executor::{ExecutorError, ExecutorLayer};
            BoxCloneService::new(ExecutorLayer::current().layer(inner).map_err(|e| match e {
                ExecutorError::Service(u) => UErr::wrap(u, "executor.Service"),
                ExecutorError::TaskCancelled => UErr::new("executor.TaskCancelled"),
            }))
        }
        L::Chaos => {
            use tower_resilience_chaos::ChaosLayer;
            let mut b = ChaosLayer::builder().name("c").error_fn(|_: &Req| UErr::new("chaos.Injected")).error_rate(0.0).latency_rate(0.0).seed(7);
            if want_l {
                b = b.on_passed_through(move || lst(pos, 1, pf, false)).on_passed_through(move || lst(pos, 1, pf, true));
            }
            BoxCloneService::new(b.build().layer(inner))
        }
    }
}

/// UErr with a Display the reconnect predicate can read.
#[derive(Debug, Clone)]
struct RErr(UErr);
impl std::fmt::Display for RErr {
    fn fmt(&self, f: &mut std::fmt::Formatter<'_>) -> std::fmt::Result {
        write!(f, "rerr kind{}", self.0.inner.as_ref().map(|e| e.kind as i64).unwrap_or(-1))
    }
}
impl std::error::Error for RErr {}

struct SimOut {
    rep: crate::exec::SimReport,
    log: Vec<crate::world::Rec>,
    world: crate::world::World,
}

fn run_once(s: &Scn, chooser: &mut Chooser, rt_seed: u64, listeners: u8) -> SimOut {
    world::reset();
    let mut cfg = s.knobs.cfg(&RunCtx { chooser: Chooser::from_seed(0), rt_seed }, 30_000, 50);
    cfg.max_steps = 20_000;
    let _ = SimCfg::default();
    let scn = s.clone();
    let setup = move || {
        world::with(|w| {
            w.script.strict = true;
            for (i, (_, sc)) in scn.reqs.iter().enumerate() {
                w.script.by_req.insert((0, i as u32), sc.clone());
            }
            if !scn.ready_script.is_empty() {
                w.script.ready_script.insert(0, scn.ready_script.clone());
            }
            if scn.clone_warmup_ms > 0 {
                w.script.clone_warmup_ms.insert(0, scn.clone_warmup_ms);
            }
        });
        let base = SimInner::new(0).map_err(|e: SimErr| UErr { path: vec![], inner: Some(e) });
        let mut svc: Bx = match scn.mode {
            1 => {
                let (b, worker) = tower::buffer::Buffer::pair(base, 4);
                tokio::spawn(worker);
                BoxCloneService::new(b.map_err(|e: tower::BoxError| match e.downcast::<UErr>() {
                    Ok(u) => *u,
                    Err(_) => UErr::new("buffer.Error"),
                }))
            }
            2 => BoxCloneService::new(tower::limit::ConcurrencyLimit::new(base, 4)),
            _ => BoxCloneService::new(base),
        };
        let n = scn.stack.len();
        for (k, kind) in scn.stack.iter().rev().enumerate() {
            let pos = (n - 1 - k) as i64;
            if k > 0 {
                svc = BoxCloneService::new(Probe { inner: svc, pos, ready: false });
            }
            svc = wrap(*kind, pos, scn.triggering, scn.pressure, scn.zero_backoff, scn.alt, listeners, svc);
        }
        if !scn.inner_reentrant.is_empty() {
            world::with(|w| {
                for i in &scn.inner_reentrant {
                    w.script.nested.insert((0, *i), Req { id: 500 + *i, key: 5000 + *i });
                    w.script.by_req.insert((0, 500 + *i), vec![Behaviour { lat_ms: 2, out: Outcome::Ok, yields: 0 }]);
                }
            });
            let proto = svc.clone();
            crate::inner::NESTED.with(|nst| {
                *nst.borrow_mut() = Some(std::rc::Rc::new(move |r: Req| {
                    let mut s = proto.clone();
                    let wk = futures::task::noop_waker();
                    match s.poll_ready(&mut Context::from_waker(&wk)) {
                        Poll::Ready(Ok(())) => {
                            let f = s.call(r);
                            Some(Box::pin(async move {
                                let _ = f.await;
                                drop(s);
                            }) as crate::inner::NestedFut)
                        }
                        _ => None,
                    }
                }))
            });
        }
        REENTER.with(|r| *r.borrow_mut() = if listeners == 3 { Some(svc.clone()) } else { None });
        REENTER_N.with(|n| n.set(0));
        REENTER_DEPTH.with(|d| d.set(0));
        let mut defs = vec![];
        // callers clone the shared service when they start; optionally a primer task has polled
        // that shared instance ready (without calling it) before
        let template = std::rc::Rc::new(std::cell::RefCell::new(svc));
        if scn.primed_template {
            let t = template.clone();
            let make: Box<dyn FnOnce() -> LocalFut> = Box::new(move || {
                Box::pin(async move {
                    let _ = std::future::poll_fn(|cx| t.borrow_mut().poll_ready(cx)).await;
                    world::fault("template_polled_ready_then_cloned");
                    Out::unit()
                })
            });
            defs.push(TaskDef { start_ms: 0, make, cancel: Cancel::Never });
        }
        let shift = if scn.primed_template { 1 + scn.clone_warmup_ms } else { 0 };
        let dup_keys = scn.dup_keys;
        for (i, (start, _)) in scn.reqs.iter().enumerate() {
            let template = template.clone();
            let make: Box<dyn FnOnce() -> LocalFut> = Box::new(move || {
                let svc = template.borrow().clone();
                Box::pin(async move {
                    let mut svc = svc;
                    match svc.ready().await {
                        Err(e) => {
                            world::note("ready_err", i as i64, e.inner.as_ref().map(|x| x.kind as i64).unwrap_or(-1));
                            Out { err: Some("ReadyErr"), inner: e.inner.clone(), aux: e.path.len() as i64, ..Default::default() }
                        }
                        Ok(sv) => match sv.call(Req { id: i as u32, key: if dup_keys { 1000 + (i as u32 % 2) } else { 1000 + i as u32 } }).await {
                            Ok(r) => Out::ok(r),
                            Err(e) => {
                                ERRPATH.with(|p| p.borrow_mut().insert(i, e.path.clone()));
                                Out::err("Err", e.inner.clone())
                            }
                        },
                    }
                })
            });
            defs.push(TaskDef { start_ms: *start + shift, make, cancel: Cancel::Never });
        }
        defs
    };
    ERRPATH.with(|p| p.borrow_mut().clear());
    let mut step = |_k| {};
    let mut idle = || {};
    let rep = run_sim(cfg, chooser, setup, Hooks { step: &mut step, idle: &mut idle });
    REENTER.with(|r| *r.borrow_mut() = None);
    crate::inner::NESTED.with(|n| *n.borrow_mut() = None);
    let log = world::with(|w| std::mem::take(&mut w.log));
    let w = world::take();
    SimOut { rep, log, world: w }
}

thread_local! {
    static ERRPATH: std::cell::RefCell<std::collections::HashMap<usize, Vec<&'static str>>> = Default::default();
}

fn outcome_key(o: &SimOut, n: usize, off: usize) -> Vec<String> {
    (0..n)
        .map(|i| {
            let t = &o.rep.tasks[i + off];
            match (&t.status, &t.out) {
                (Status::Resolved, Some(out)) => format!("{:?}/{:?}/{:?}", out.ok.as_ref().map(|r| (r.req, r.svc)), out.err, out.inner.as_ref().map(|e| (e.req, e.kind))),
                (st, _) => format!("{:?}", st),
            }
        })
        .collect()
}

pub fn run(s: &Scn, ctx: &mut RunCtx) -> RunOutput {
    let n = s.reqs.len();
    let off = if s.primed_template { 1 } else { 0 };
    let mut vio: Vec<Violation> = vec![];
    let mut push = |rule: &str, class: &str, msg: String| {
        if vio.len() < 12 {
            vio.push(Violation { rule: rule.to_string(), class: class.to_string(), msg });
        }
    };
    let listeners = if s.mode == 3 { 1 } else { 0 };
    let main = run_once(s, &mut ctx.chooser, ctx.rt_seed, listeners);
    let errpaths: std::collections::HashMap<usize, Vec<&'static str>> = ERRPATH.with(|p| p.borrow().clone());
    let calls = inner_calls(&main.log);
    let stack_desc = format!("{:?}", s.stack.iter().map(|l| l.name()).collect::<Vec<_>>());
    let innermost = s.stack.last().unwrap();

    // ---- readiness: probes between layers and the strict innermost service
    for (r, pos, ok) in notes(&main.log, "probe_call") {
        if ok == 0 {
            let layer = s.stack[pos as usize];
            push(
                "C20.ready_before_call",
                layer.name(),
                format!("t={}us: layer {} (position {} in {}) called its wrapped service on an instance it had not seen ready since that instance's previous call", r.t_us, layer.name(), pos, stack_desc),
            );
        }
    }
    if s.mode == 0 {
        for c in calls.iter() {
            if !c.ready_ok {
                push(
                    "C20.ready_before_call",
                    innermost.name(),
                    format!("t={}us: layer {} called the wrapped service (request {}, attempt {}) on an instance on which poll_ready had not returned Ready since its previous call; stack {}", c.start_us, innermost.name(), c.req, c.attempt, stack_desc),
                );
                break;
            }
        }
    }
    // tower's own services panic when the contract is broken
    for (i, t) in main.rep.tasks.iter().enumerate().skip(off).map(|(k, t)| (k - off, t)) {
        if t.status == Status::Panicked {
            let contract = t.panic_msg.as_deref().map(|m| m.contains("poll_ready") || m.contains("poll_reserve") || m.contains("not ready")).unwrap_or(false);
            push(
                if contract { "C20.ready_before_call" } else { "C20.exactly_once" },
                if contract { innermost.name() } else { "panic" },
                format!("request {} panicked below layer {} ({}): {:?}", i, innermost.name(), if s.mode == 1 { "tower Buffer" } else if s.mode == 2 { "tower ConcurrencyLimit" } else { "strict inner" }, t.panic_msg),
            );
        }
    }
    for p in main.world.panics.iter() {
        if p.contains("poll_ready") {
            push("C20.ready_before_call", innermost.name(), format!("a spawned task panicked below layer {}: {}", innermost.name(), p));
        }
    }
    let ready_err_scripted = s.ready_script.contains(&2);
    // ---- transparency (only meaningful when nothing was scripted to trigger)
    let cb_fb = s.stack.contains(&L::CircuitBreakerFallback);
    let _ = cb_fb;
    for (i, t) in main.rep.tasks.iter().enumerate().skip(off).map(|(k, t)| (k - off, t)) {
        let mine: Vec<_> = calls.iter().filter(|c| c.req == i as u32).collect();
        match (&t.status, &t.out) {
            (Status::Resolved, Some(o)) => {
                if o.err == Some("ReadyErr") {
                    // readiness error must be the scripted one, through pass-through variants only
                    if !ready_err_scripted || o.inner.as_ref().map(|e| e.kind) != Some(READY_ERR_KIND) {
                        push("C20.ready_error_surfaces", innermost.name(), format!("request {}: ready() failed with {:?} although no readiness error was scripted; stack {}", i, o.inner, stack_desc));
                    }
                    if !mine.is_empty() {
                        push("C20.ready_error_surfaces", "called_anyway", format!("request {}: readiness failed but the inner service was called", i));
                    }
                    continue;
                }
                // a failing primary makes the hedge fire once its delay is over: for hedge an
                // inner error *is* the triggering condition
                let hedge_triggered = s.stack.contains(&L::Hedge) && matches!(s.reqs[i].1[0].out, Outcome::Err(_));
                if !s.triggering && !hedge_triggered && !s.dup_keys {
                    if mine.len() != 1 {
                        push("C20.exactly_once", innermost.name(), format!("request {} reached the inner service {} times through {}", i, mine.len(), stack_desc));
                        continue;
                    }
                    if mine[0].key != 1000 + i as u32 {
                        push("C20.request_unchanged", "", format!("request {} arrived with key {}", i, mine[0].key));
                    }
                    let scripted = s.reqs[i].1[0].out;
                    match scripted {
                        Outcome::Ok => {
                            let good = o.ok.as_ref().map(|r| r.serial == mine[0].serial && r.req == i as u32 && r.svc == 0).unwrap_or(false);
                            if !good {
                                push("C20.response_unchanged", "", format!("request {}: inner answered serial {} but the caller got {:?} through {}", i, mine[0].serial, o, stack_desc));
                            }
                        }
                        Outcome::Err(k) => {
                            let path = errpaths.get(&i).cloned().unwrap_or_default();
                            let payload_ok = o.inner.as_ref().map(|e| e.serial == mine[0].serial && e.kind == k && e.req == i as u32).unwrap_or(false);
                            // expected path: innermost first
                            let mut ok_path = true;
                            let mut idx = 0usize;
                            for l in s.stack.iter().rev() {
                                let tags = l.pass_tags();
                                if tags.is_empty() {
                                    continue;
                                }
                                if idx >= path.len() || !tags.contains(&path[idx]) {
                                    ok_path = false;
                                    break;
                                }
                                idx += 1;
                            }
                            if idx != path.len() {
                                ok_path = false;
                            }
                            if !payload_ok || !ok_path {
                                push(
                                    "C20.error_passthrough_variant",
                                    "",
                                    format!("request {}: inner failed with serial {} kind {}; caller got payload {:?} wrapped as {:?} through {}", i, mine[0].serial, k, o.inner, path, stack_desc),
                                );
                            }
                        }
                        _ => {}
                    }
                }
            }
            (Status::Unresolved, _) => {
                push("C20.exactly_once", "unresolved", format!("request {} never resolved through {} (mode {}, ready script {:?})", i, stack_desc, s.mode, s.ready_script));
            }
            _ => {}
        }
    }
    if ready_err_scripted {
        world::probe("ready_error_scripted");
    }
    // a readiness error met while a request is being handled (e.g. before a retry) must reach
    // that request's caller as what it is. Hedge is left out: a hedge whose clone fails to get
    // ready is one failed attempt among several.
    if s.mode == 0 && !s.stack.contains(&L::Hedge) {
        for r in main.log.iter() {
            if let crate::world::Ev::InnerReady { res: 2, .. } = &r.ev {
                let Some(i) = (r.task as i64).checked_sub(off as i64).filter(|i| *i >= 0 && (*i as usize) < n).map(|i| i as usize) else { continue };
                let t = &main.rep.tasks[i + off];
                let surfaced = matches!((&t.status, &t.out), (Status::Resolved, Some(o)) if o.inner.as_ref().map(|e| e.kind) == Some(READY_ERR_KIND));
                if !surfaced {
                    push(
                        "C20.ready_error_surfaces",
                        "swallowed",
                        format!("t={}us: the wrapped service's poll_ready failed while request {} was being handled, but the caller got {:?}; stack {}", r.t_us, i, t.out, stack_desc),
                    );
                }
            }
        }
    }
    // ---- listeners only observe
    let mut nontrivial = true;
    let mut other_faults: std::collections::BTreeMap<&'static str, u64> = Default::default();
    let mut digest = world::digest(&main.log);
    let mut steps = main.rep.steps as u64;
    if s.mode == 3 {
        let mut c2 = Chooser::from_trace(ctx.chooser.trace.clone());
        let other = run_once(s, &mut c2, ctx.rt_seed, if s.reentrant { 3 } else if s.blocking { 4 } else { 2 });
        steps += other.rep.steps as u64;
        digest = crate::rng::mix(&[digest, world::digest(&other.log)]);
        let a = outcome_key(&main, n, off);
        let b = outcome_key(&other, n, off);
        if a != b {
            push("C20.outcomes_unchanged", "", format!("with panicking / re-entering / blocking listeners the outcomes changed from {:?} to {:?}; stack {}", a, b, stack_desc));
        }
        let count = |o: &SimOut| {
            let mut m = std::collections::BTreeMap::new();
            for (_, l, e) in notes(&o.log, "listener") {
                *m.entry((l, e)).or_insert(0u32) += 1;
            }
            m
        };
        let (ca, cb) = (count(&main), count(&other));
        // (a listener that calls back into the service adds events of its own; one that blocks
        // the thread moves every later timer, which may decide a tie between two layers' timers
        // the other way and so change which events there are, though not the outcome)
        if ca != cb && !s.reentrant && !s.blocking {
            push("C20.surviving_listeners_see_all", "", format!("events seen by the second listener of each hook: {:?} without panics, {:?} when the first listener panics; stack {}", ca, cb, stack_desc));
        }
        other_faults = other.world.faults.clone();
        nontrivial = other.world.faults.get("listener_panic").copied().unwrap_or(0) + other.world.faults.get("listener_reentered").copied().unwrap_or(0) + other.world.faults.get("blocking_callback").copied().unwrap_or(0) > 0;
        if c2.diverged && !s.reentrant && !s.blocking {
            push("C20.outcomes_unchanged", "schedule_diverged", "the second run could not follow the first run's schedule".into());
        }
    }
    vio.sort();
    vio.dedup_by(|a, b| a.rule == b.rule && a.class == b.class);
    let mut faults = main.world.faults.clone();
    if s.mode == 3 {
        *faults.entry("listener_panic_run").or_insert(0) += 1;
        for (k, v) in other_faults.iter() {
            if k.starts_with("listener_") || *k == "blocking_callback" {
                *faults.entry(k).or_insert(0) += *v;
            }
        }
    }
    let mut probes = main.world.probes.clone();
    *probes.entry(match s.mode {
        0 => "mode_strict_inner",
        1 => "mode_tower_buffer",
        2 => "mode_tower_concurrency_limit",
        _ => "mode_listener_differential",
    }).or_insert(0) += 1;
    if s.stack.len() > 1 {
        *probes.entry("stacked").or_insert(0) += 1;
    }
    if s.triggering {
        *probes.entry("retrying_or_hedging_configuration").or_insert(0) += 1;
    }
    if s.pressure {
        *probes.entry("queueing_inside_bulkhead_or_ratelimiter").or_insert(0) += 1;
    }
    if s.zero_backoff {
        *probes.entry("zero_backoff").or_insert(0) += 1;
    }
    RunOutput {
        violations: vio,
        faults,
        probes,
        steps,
        vtime_us: main.rep.end_us,
        nontrivial,
        digest,
        trace: ctx.chooser.trace.clone(),
        diverged: ctx.chooser.diverged,
        summary: json!({"stack": stack_desc, "mode": s.mode, "outcomes": outcome_key(&main, n, off)}),
    }
}

pub struct C20;

impl Prop for C20 {
    fn id(&self) -> &'static str {
        "C20"
    }
    fn gen(&self, rng: &mut Rng, _t: Tier) -> Value {
        loop {
            let s = gen(rng);
            if valid(&s) {
                return serde_json::to_value(s).unwrap();
            }
        }
    }
    fn valid(&self, v: &Value) -> bool {
        parse::<Scn>(v).map(|s| valid(&s)).unwrap_or(false)
    }
    fn run(&self, v: &Value, ctx: &mut RunCtx) -> RunOutput {
        run(&parse::<Scn>(v).unwrap(), ctx)
    }
    fn runs(&self, t: Tier) -> u64 {
        match t {
            Tier::Quick => 20_000,
            Tier::Thorough => 5_000_000,
        }
    }
    fn nontrivial_rule(&self) -> &'static str {
        "scenario = one of the 13 middleware (15 variants incl. breaker-with-fallback and keep-running time limiter) alone, or one of 19 stacks of the composition guide, each layer in its non-triggering configuration (retry / hedge / reconnect also in a retrying configuration), 1-8 requests with unique payloads and ok/error outcomes; the innermost service is the strict contract-checking stub (scripted pending / failing readiness), or tower's Buffer, or tower's ConcurrencyLimit; transparent probes between layers attribute readiness violations to the calling layer; mode 3 runs the same scenario twice on the same schedule, once with a panicking listener (or one that calls back into the service, or one that blocks the thread for 7 ms) registered before a counting listener on every hook. Non-trivial: all runs except differential runs in which no listener fired. Distinct = distinct event-log digest."
    }
    fn real_components(&self) -> Vec<&'static str> {
        vec!["all 15 tower-resilience crates through their layers/builders", "tower Buffer, ConcurrencyLimit, BoxCloneService, MapErr, ServiceExt::ready", "tower-resilience-core EventListeners (panic isolation)"]
    }
    fn stub_components(&self) -> Vec<&'static str> {
        vec!["innermost service (SimInner, strict per-instance readiness flag)", "probes between layers (record readiness, then heal)", "listeners (panicking / counting)"]
    }
    fn assumptions(&self) -> Vec<&'static str> {
        vec!["errors are mapped into one uniform type after every layer (MapErr), which is itself readiness-preserving", "listener differential compares the two runs under the same recorded schedule"]
    }
}
