//! Small deterministic PRNG (xoshiro256** seeded through splitmix64). No external state.

#[derive(Clone, Debug)]
pub struct Rng {
    s: [u64; 4],
}

pub fn splitmix(x: &mut u64) -> u64 {
    *x = x.wrapping_add(0x9E37_79B9_7F4A_7C15);
    let mut z = *x;
    z = (z ^ (z >> 30)).wrapping_mul(0xBF58_476D_1CE4_E5B9);
    z = (z ^ (z >> 27)).wrapping_mul(0x94D0_49BB_1331_11EB);
    z ^ (z >> 31)
}

/// Mix several integers into one seed.
pub fn mix(parts: &[u64]) -> u64 {
    let mut h = 0x243F_6A88_85A3_08D3u64;
    for p in parts {
        h ^= *p;
        h = splitmix(&mut h);
    }
    h
}

impl Rng {
    pub fn new(seed: u64) -> Self {
        let mut x = seed;
        let s = [
            splitmix(&mut x),
            splitmix(&mut x),
            splitmix(&mut x),
            splitmix(&mut x),
        ];
        Rng { s }
    }
    pub fn next_u64(&mut self) -> u64 {
        let r = self.s[1].wrapping_mul(5).rotate_left(7).wrapping_mul(9);
        let t = self.s[1] << 17;
        self.s[2] ^= self.s[0];
        self.s[3] ^= self.s[1];
        self.s[1] ^= self.s[2];
        self.s[0] ^= self.s[3];
        self.s[2] ^= t;
        self.s[3] = self.s[3].rotate_left(45);
        r
    }
    /// Uniform in 0..n (n > 0).
    pub fn below(&mut self, n: u64) -> u64 {
        debug_assert!(n > 0);
        // multiply-shift; bias is irrelevant here
        ((self.next_u64() as u128 * n as u128) >> 64) as u64
    }
    pub fn range(&mut self, lo: u64, hi_incl: u64) -> u64 {
        lo + self.below(hi_incl - lo + 1)
    }
    pub fn chance(&mut self, num: u64, den: u64) -> bool {
        self.below(den) < num
    }
    pub fn pick<'a, T>(&mut self, xs: &'a [T]) -> &'a T {
        &xs[self.below(xs.len() as u64) as usize]
    }
    pub fn f64(&mut self) -> f64 {
        (self.next_u64() >> 11) as f64 / (1u64 << 53) as f64
    }
    pub fn shuffle<T>(&mut self, xs: &mut [T]) {
        for i in (1..xs.len()).rev() {
            let j = self.below(i as u64 + 1) as usize;
            xs.swap(i, j);
        }
    }
}
