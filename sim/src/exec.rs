//! Engine A: the seeded task scheduler. The future handed to `block_on` of a paused,
//! current-thread tokio runtime *is* the scheduler: it owns every caller task, gives each its
//! own waker, and polls exactly one chosen task per step. When nothing is runnable it returns
//! `Pending`, the runtime goes idle and tokio advances the paused clock to the next timer.

use crate::inner::{Resp, SimErr, SimPanic};
use crate::rng::Rng;
use crate::world::{self, Ev};
use std::future::Future;
use std::panic::AssertUnwindSafe;
use std::pin::Pin;
use std::sync::atomic::{AtomicBool, AtomicU64, Ordering};
use std::sync::{Arc, Mutex};
use std::task::{Context, Poll, Wake, Waker};
use std::time::Duration;

/// Every scheduling decision goes through here: drawn from the PRNG (and recorded), or read
/// back from a recorded trace on replay.
pub struct Chooser {
    rng: Rng,
    replay: Option<Vec<u32>>,
    pos: usize,
    pub trace: Vec<u32>,
    pub diverged: bool,
}

impl Chooser {
    pub fn from_seed(seed: u64) -> Self {
        Chooser {
            rng: Rng::new(seed),
            replay: None,
            pos: 0,
            trace: Vec::new(),
            diverged: false,
        }
    }
    pub fn from_trace(trace: Vec<u32>) -> Self {
        Chooser {
            rng: Rng::new(0),
            replay: Some(trace),
            pos: 0,
            trace: Vec::new(),
            diverged: false,
        }
    }
    pub fn choose(&mut self, n: usize) -> usize {
        debug_assert!(n > 0);
        let c = match &self.replay {
            Some(t) => {
                let v = t.get(self.pos).copied();
                self.pos += 1;
                match v {
                    Some(v) if (v as usize) < n => v as usize,
                    _ => {
                        self.diverged = true;
                        0
                    }
                }
            }
            None => self.rng.below(n as u64) as usize,
        };
        self.trace.push(c as u32);
        c
    }
}

#[derive(Clone, Debug, Default)]
pub struct Out {
    pub ok: Option<Resp>,
    /// error class as named by the property (e.g. "Timeout", "Inner", "OpenCircuit")
    pub err: Option<&'static str>,
    pub inner: Option<SimErr>,
    pub aux: i64,
}

impl Out {
    pub fn ok(r: Resp) -> Self {
        Out {
            ok: Some(r),
            ..Default::default()
        }
    }
    pub fn err(class: &'static str, inner: Option<SimErr>) -> Self {
        Out {
            err: Some(class),
            inner,
            ..Default::default()
        }
    }
    pub fn unit() -> Self {
        Out::default()
    }
}

pub type LocalFut = Pin<Box<dyn Future<Output = Out>>>;

#[derive(Clone, Copy, Debug, PartialEq, Eq)]
pub enum Cancel {
    Never,
    AfterPolls(u32),
    AtMs(u64),
}

pub struct TaskDef {
    pub start_ms: u64,
    pub make: Box<dyn FnOnce() -> LocalFut>,
    pub cancel: Cancel,
}

#[derive(Clone, Copy, Debug, PartialEq, Eq)]
pub enum Status {
    Unstarted,
    Running,
    Resolved,
    Cancelled,
    Panicked,
    Unresolved,
}

#[derive(Clone, Debug)]
pub struct TaskRes {
    pub status: Status,
    pub out: Option<Out>,
    pub panic_msg: Option<String>,
    pub first_poll_seq: u64,
    pub first_poll_us: u64,
    pub end_seq: u64,
    pub end_us: u64,
    pub polls: u32,
    pub was_spinner: bool,
}

#[derive(Clone, Debug)]
pub struct SimCfg {
    pub horizon_ms: u64,
    pub tail_ms: u64,
    pub max_steps: u32,
    /// 0 uniform, 1 PCT-like priorities, 2 newest first, 3 oldest-woken first
    pub strategy: u8,
    /// after this many steps in one root poll, let tokio's own tasks run (0 = only when idle)
    pub yield_every: u32,
    /// forward clock jumps (at_ms, by_ms): the executor is starved for that long
    pub jumps: Vec<(u64, u64)>,
    pub rt_seed: u64,
    /// (task selector, polls): that task's future is handed to "another task" after so many
    /// polls: from then on it is polled with a new waker and wake-ups through the old one are
    /// lost (a future must re-register the waker of its latest poll)
    pub migrate: Option<(u32, u32)>,
}

impl Default for SimCfg {
    fn default() -> Self {
        SimCfg {
            horizon_ms: 10_000,
            tail_ms: 0,
            max_steps: 4000,
            strategy: 0,
            yield_every: 0,
            jumps: Vec::new(),
            rt_seed: 1,
            migrate: None,
        }
    }
}

#[derive(Clone, Debug)]
pub struct SimReport {
    pub tasks: Vec<TaskRes>,
    pub steps: u32,
    pub hit_horizon: bool,
    pub step_limit: bool,
    pub end_us: u64,
    pub idle_points: u32,
}

struct Shared {
    root_waker: Mutex<Option<Waker>>,
    cur: AtomicU64, // id+1 of the task being polled, 0 = none
    stamp: AtomicU64,
}

struct TaskWake {
    id: u64,
    /// the task has moved on to another waker: wake-ups through this one reach nobody
    dead: AtomicBool,
    woken: AtomicBool,
    stamp: AtomicU64,
    shared: Arc<Shared>,
}

impl Wake for TaskWake {
    fn wake(self: Arc<Self>) {
        self.wake_by_ref()
    }
    fn wake_by_ref(self: &Arc<Self>) {
        if self.dead.load(Ordering::SeqCst) {
            return;
        }
        if !self.woken.swap(true, Ordering::SeqCst) {
            let s = self.shared.stamp.fetch_add(1, Ordering::SeqCst);
            self.stamp.store(s, Ordering::SeqCst);
        }
        if self.shared.cur.load(Ordering::SeqCst) != self.id + 1 {
            if let Some(w) = self.shared.root_waker.lock().unwrap().as_ref() {
                w.wake_by_ref();
            }
        }
    }
}

struct Task {
    def_start_ms: u64,
    make: Option<Box<dyn FnOnce() -> LocalFut>>,
    fut: Option<LocalFut>,
    cancel: Cancel,
    wake: Arc<TaskWake>,
    waker: Waker,
    res: TaskRes,
    spin: bool,
    progress: bool,
    prio: i64,
    /// polled with tokio's cooperative budget in force (fresh per poll)
    constrained: bool,
    /// its last poll burnt the whole budget (and a virtual ms): it runs only when nobody else can
    busy: bool,
}

#[derive(Clone, Copy, PartialEq, Eq, Debug)]
pub enum StepKind {
    Poll(u32),
    Cancel(u32),
}

pub struct Hooks<'a> {
    /// called after every step (per-step invariants)
    pub step: &'a mut dyn FnMut(StepKind),
    /// called when nothing is runnable and the clock is about to advance (quiescent point)
    pub idle: &'a mut dyn FnMut(),
}

static HOOK_ONCE: std::sync::Once = std::sync::Once::new();

thread_local! {
    /// set while engine B (shuttle) executes on this thread: library panics are recorded by the
    /// caller, not printed
    pub static QUIET: std::cell::Cell<bool> = const { std::cell::Cell::new(false) };
}

pub fn install_panic_hook() {
    HOOK_ONCE.call_once(|| {
        // shuttle installs a process-wide panic hook on first use; make that happen now so that
        // ours ends up outermost and scripted panics stay silent
        {
            let mut cfg = shuttle::Config::new();
            cfg.failure_persistence = shuttle::FailurePersistence::None;
            cfg.silence_warnings = true;
            shuttle::Runner::new(shuttle::scheduler::RandomScheduler::new_from_seed(1, 1), cfg).run(|| {});
        }
        let prev = std::panic::take_hook();
        std::panic::set_hook(Box::new(move |info| {
            if info.payload().downcast_ref::<SimPanic>().is_some() {
                return;
            }
            if world::is_active() || QUIET.with(|q| q.get()) {
                let msg = if let Some(s) = info.payload().downcast_ref::<&str>() {
                    s.to_string()
                } else if let Some(s) = info.payload().downcast_ref::<String>() {
                    s.clone()
                } else {
                    "non-string panic".to_string()
                };
                let loc = info
                    .location()
                    .map(|l| format!("{}:{}", l.file(), l.line()))
                    .unwrap_or_default();
                if std::env::var_os("TRSIM_LOUD").is_some() {
                    eprintln!("[panic] {} @ {}", msg, loc);
                }
                world::try_with(|w| {
                    if w.panics.len() < 8 {
                        w.panics.push(format!("{} @ {}", msg, loc))
                    }
                });
            } else {
                prev(info);
            }
        }));
    });
}

struct Root<'a, 'h> {
    cfg: SimCfg,
    tasks: Vec<Task>,
    shared: Arc<Shared>,
    chooser: &'a mut Chooser,
    hooks: Hooks<'h>,
    timer: Option<Pin<Box<tokio::time::Sleep>>>,
    advancing: Option<Pin<Box<dyn Future<Output = ()>>>>,
    t0: tokio::time::Instant,
    steps: u32,
    jumps_done: usize,
    tail_end: Option<u64>,
    hit_horizon: bool,
    step_limit: bool,
    idle_points: u32,
    change_points: Vec<u32>,
    low_prio: i64,
}

impl<'a, 'h> Root<'a, 'h> {
    fn arm(&mut self, cx: &mut Context<'_>, deadline_ms: u64) -> bool {
        let dl = self.t0 + Duration::from_millis(deadline_ms);
        match &mut self.timer {
            Some(s) => s.as_mut().reset(dl),
            None => self.timer = Some(Box::pin(tokio::time::sleep_until(dl))),
        }
        self.timer.as_mut().unwrap().as_mut().poll(cx).is_ready()
    }

    fn finish_unresolved(&mut self) {
        for (i, t) in self.tasks.iter_mut().enumerate() {
            if matches!(t.res.status, Status::Running | Status::Unstarted) {
                let was_running = t.res.status == Status::Running;
                t.res.status = Status::Unresolved;
                if was_running {
                    t.res.end_seq = world::log(Ev::TaskEnd {
                        task: i as u32,
                        status: 3,
                    });
                    t.res.end_us = world::now_us();
                }
            }
        }
    }

    fn all_terminal(&self) -> bool {
        self.tasks.iter().all(|t| {
            !matches!(t.res.status, Status::Running | Status::Unstarted)
        })
    }

    fn poll_root(&mut self, cx: &mut Context<'_>) -> Poll<()> {
        *self.shared.root_waker.lock().unwrap() = Some(cx.waker().clone());
        for t in self.tasks.iter_mut() {
            if t.spin {
                t.progress = true;
            }
        }
        let mut steps_this_poll = 0u32;
        let mut real_step_this_poll = false;
        // a budgeted task has been polled in this root poll: go back to block_on (which hands
        // out a fresh cooperative budget per poll of the root future) before the next step
        let mut fresh_budget_needed = false;
        loop {
            if fresh_budget_needed && self.advancing.is_none() {
                cx.waker().wake_by_ref();
                return Poll::Pending;
            }
            if let Some(f) = &mut self.advancing {
                match f.as_mut().poll(cx) {
                    Poll::Ready(()) => {
                        self.advancing = None;
                        for t in self.tasks.iter_mut() {
                            if t.spin {
                                t.progress = true;
                            }
                        }
                        continue;
                    }
                    Poll::Pending => return Poll::Pending,
                }
            }
            let now = world::now_ms();
            if let Some(te) = self.tail_end {
                if now >= te {
                    return Poll::Ready(());
                }
                if self.arm(cx, te) {
                    continue;
                }
                return Poll::Pending;
            }
            if now >= self.cfg.horizon_ms {
                self.hit_horizon = !self.all_terminal();
                self.finish_unresolved();
                self.tail_end = Some(now + self.cfg.tail_ms);
                continue;
            }
            if self.jumps_done < self.cfg.jumps.len() && self.cfg.jumps[self.jumps_done].0 <= now {
                let by = self.cfg.jumps[self.jumps_done].1;
                self.jumps_done += 1;
                world::fault("clock_jump");
                world::log(Ev::Jump { ms: by });
                self.advancing = Some(Box::pin(tokio::time::advance(Duration::from_millis(by))));
                continue;
            }
            // candidates
            let mut cands: Vec<StepKind> = Vec::new();
            let mut spinners_waiting = false;
            for (i, t) in self.tasks.iter().enumerate() {
                match t.res.status {
                    Status::Unstarted => {
                        if t.def_start_ms <= now {
                            cands.push(StepKind::Poll(i as u32));
                        }
                    }
                    Status::Running => {
                        let woken = t.wake.woken.load(Ordering::SeqCst);
                        if woken {
                            if !t.spin || t.progress {
                                cands.push(StepKind::Poll(i as u32));
                            } else {
                                spinners_waiting = true;
                            }
                        }
                        let due = match t.cancel {
                            Cancel::Never => false,
                            Cancel::AfterPolls(n) => t.res.polls >= n,
                            Cancel::AtMs(ms) => now >= ms,
                        };
                        if due {
                            cands.push(StepKind::Cancel(i as u32));
                        }
                    }
                    _ => {}
                }
            }
            // a task that keeps burning its budget (1 virtual ms per poll) runs after everybody
            // else, so that the others still see every instant exactly
            if cands.iter().any(|c| !matches!(c, StepKind::Poll(i) if self.tasks[*i as usize].busy)) {
                cands.retain(|c| !matches!(c, StepKind::Poll(i) if self.tasks[*i as usize].busy));
            }
            if cands.is_empty() {
                if self.all_terminal() {
                    self.tail_end = Some(now + self.cfg.tail_ms);
                    continue;
                }
                // quiescent: nothing runnable, the clock is about to move
                self.idle_points += 1;
                (self.hooks.idle)();
                let mut dl = self.cfg.horizon_ms;
                for t in self.tasks.iter() {
                    match t.res.status {
                        Status::Unstarted => dl = dl.min(t.def_start_ms),
                        Status::Running => {
                            if let Cancel::AtMs(ms) = t.cancel {
                                dl = dl.min(ms)
                            }
                        }
                        _ => {}
                    }
                }
                if self.jumps_done < self.cfg.jumps.len() {
                    dl = dl.min(self.cfg.jumps[self.jumps_done].0);
                }
                if spinners_waiting {
                    dl = dl.min(now + 1);
                }
                if self.arm(cx, dl.max(now)) {
                    // deadline already reached: spinners get their quantum
                    for t in self.tasks.iter_mut() {
                        if t.spin {
                            t.progress = true;
                        }
                    }
                    if dl <= now && !spinners_waiting {
                        continue;
                    }
                    continue;
                }
                return Poll::Pending;
            }
            if self.steps >= self.cfg.max_steps {
                self.step_limit = true;
                self.finish_unresolved();
                self.tail_end = Some(now);
                continue;
            }
            if self.cfg.yield_every > 0
                && steps_this_poll >= self.cfg.yield_every
                && real_step_this_poll
            {
                cx.waker().wake_by_ref();
                return Poll::Pending;
            }
            // choose
            let idx = match self.cfg.strategy {
                1 => {
                    // PCT-like: highest priority candidate; change points demote the chosen task
                    let mut best = 0usize;
                    let mut bp = i64::MIN;
                    for (k, c) in cands.iter().enumerate() {
                        let ti = match c {
                            StepKind::Poll(i) | StepKind::Cancel(i) => *i as usize,
                        };
                        if self.tasks[ti].prio > bp {
                            bp = self.tasks[ti].prio;
                            best = k;
                        }
                    }
                    if self.change_points.contains(&self.steps) {
                        let ti = match cands[best] {
                            StepKind::Poll(i) | StepKind::Cancel(i) => i as usize,
                        };
                        self.low_prio -= 1;
                        self.tasks[ti].prio = self.low_prio;
                    }
                    // one recorded choice so that traces stay aligned across strategies
                    let _ = self.chooser.choose(1);
                    best
                }
                2 => {
                    let _ = self.chooser.choose(1);
                    cands.len() - 1
                }
                3 => {
                    let _ = self.chooser.choose(1);
                    let mut best = 0usize;
                    let mut bs = u64::MAX;
                    for (k, c) in cands.iter().enumerate() {
                        let ti = match c {
                            StepKind::Poll(i) | StepKind::Cancel(i) => *i as usize,
                        };
                        let s = if self.tasks[ti].res.status == Status::Unstarted {
                            0
                        } else {
                            self.tasks[ti].wake.stamp.load(Ordering::SeqCst)
                        };
                        if s < bs {
                            bs = s;
                            best = k;
                        }
                    }
                    best
                }
                _ => self.chooser.choose(cands.len()),
            };
            let step = cands[idx];
            self.steps += 1;
            steps_this_poll += 1;
            let stepno = self.steps;
            world::with(|w| w.cur_step = stepno);
            let mut was_progress = true;
            match step {
                StepKind::Poll(i) => {
                    let i = i as usize;
                    let id = i as u32;
                    world::with(|w| {
                        w.cur_task = i as i32;
                        w.intentional_yield = false;
                    });
                    if self.tasks[i].res.status == Status::Unstarted {
                        let mk = self.tasks[i].make.take().unwrap();
                        self.tasks[i].res.status = Status::Running;
                        self.tasks[i].res.first_poll_seq = world::log(Ev::FirstPoll { task: id });
                        self.tasks[i].res.first_poll_us = world::now_us();
                        let r = std::panic::catch_unwind(AssertUnwindSafe(mk));
                        match r {
                            // unconstrained: tokio's cooperative budget must never turn a ready
                            // semaphore / channel / timer into a spurious Pending
                            // (budgeted mode: the task keeps the budget, and gets a fresh one per
                            // poll because the root future yields to block_on after its step)
                            Ok(f) if world::with(|w| w.script.constrained_tasks) => {
                                self.tasks[i].constrained = true;
                                self.tasks[i].fut = Some(f)
                            }
                            Ok(f) => self.tasks[i].fut = Some(Box::pin(tokio::task::unconstrained(f))),
                            Err(_) => {
                                self.tasks[i].res.status = Status::Panicked;
                            }
                        }
                    }
                    let ntasks = self.tasks.len().max(1);
                    let t = &mut self.tasks[i];
                    if t.res.status == Status::Running {
                        t.wake.woken.store(false, Ordering::SeqCst);
                        t.spin = false;
                        t.res.polls += 1;
                        self.shared.cur.store(i as u64 + 1, Ordering::SeqCst);
                        let waker = t.waker.clone();
                        let mut tcx = Context::from_waker(&waker);
                        let fut = t.fut.as_mut().unwrap();
                        let constrained = t.constrained;
                        world::with(|w| {
                            w.constrained_now = constrained;
                            w.busy_poll = false;
                        });
                        let r = std::panic::catch_unwind(AssertUnwindSafe(|| {
                            fut.as_mut().poll(&mut tcx)
                        }));
                        self.shared.cur.store(0, Ordering::SeqCst);
                        world::with(|w| w.constrained_now = false);
                        if constrained {
                            fresh_budget_needed = true;
                        }
                        t.busy = world::with(|w| std::mem::replace(&mut w.busy_mark, false));
                        if world::with(|w| std::mem::replace(&mut w.busy_poll, false)) {
                            t.busy = true;
                            // a poll that burnt the whole budget takes time: one virtual ms
                            self.advancing = Some(Box::pin(tokio::time::advance(Duration::from_millis(1))));
                        }
                        match r {
                            Ok(Poll::Ready(out)) => {
                                t.res.status = Status::Resolved;
                                t.res.out = Some(out);
                                t.fut = None;
                                t.res.end_seq = world::log(Ev::TaskEnd {
                                    task: id,
                                    status: 0,
                                });
                                t.res.end_us = world::now_us();
                            }
                            Ok(Poll::Pending) => {
                                if let Some((sel, after)) = self.cfg.migrate {
                                    if sel as usize % ntasks == i && t.res.polls == after.max(1) && !t.wake.woken.load(Ordering::SeqCst) {
                                        // the pending future moves to "another task": wake-ups through
                                        // the waker it has seen so far are lost from now on, and the new
                                        // owner polls it once (a spurious poll, which every future must
                                        // take) with its own waker
                                        world::fault("waker_migration");
                                        t.wake.dead.store(true, Ordering::SeqCst);
                                        let nw = Arc::new(TaskWake { id: i as u64, dead: AtomicBool::new(false), woken: AtomicBool::new(false), stamp: AtomicU64::new(0), shared: self.shared.clone() });
                                        t.waker = Waker::from(nw.clone());
                                        t.wake = nw;
                                        t.wake.wake_by_ref();
                                        world::with(|w| w.intentional_yield = true);
                                    }
                                }
                                if t.wake.woken.load(Ordering::SeqCst) {
                                    let intentional =
                                        world::with(|w| w.intentional_yield);
                                    if !intentional {
                                        t.spin = true;
                                        t.progress = false;
                                        t.res.was_spinner = true;
                                        was_progress = false;
                                    }
                                }
                            }
                            Err(p) => {
                                t.res.status = Status::Panicked;
                                t.res.panic_msg = Some(
                                    if p.downcast_ref::<SimPanic>().is_some() {
                                        "SimPanic".to_string()
                                    } else if let Some(s) = p.downcast_ref::<&str>() {
                                        s.to_string()
                                    } else if let Some(s) = p.downcast_ref::<String>() {
                                        s.clone()
                                    } else {
                                        "panic".to_string()
                                    },
                                );
                                let f = t.fut.take();
                                let _ = std::panic::catch_unwind(AssertUnwindSafe(move || {
                                    drop(f)
                                }));
                                t.res.end_seq = world::log(Ev::TaskEnd {
                                    task: id,
                                    status: 2,
                                });
                                t.res.end_us = world::now_us();
                            }
                        }
                    }
                    world::with(|w| w.cur_task = -1);
                }
                StepKind::Cancel(i) => {
                    let i = i as usize;
                    world::with(|w| w.cur_task = i as i32);
                    world::fault("cancel");
                    let t = &mut self.tasks[i];
                    let f = t.fut.take();
                    let _ = std::panic::catch_unwind(AssertUnwindSafe(move || drop(f)));
                    t.res.status = Status::Cancelled;
                    t.res.end_seq = world::log(Ev::TaskEnd {
                        task: i as u32,
                        status: 1,
                    });
                    t.res.end_us = world::now_us();
                    world::with(|w| w.cur_task = -1);
                }
            }
            if was_progress {
                real_step_this_poll = true;
                let me = match step {
                    StepKind::Poll(i) | StepKind::Cancel(i) => i as usize,
                };
                for (k, t) in self.tasks.iter_mut().enumerate() {
                    if k != me && t.spin {
                        t.progress = true;
                    }
                }
            }
            (self.hooks.step)(step);
        }
    }
}

/// Run one simulation: builds a fresh paused runtime (virtual t = 0), runs the scheduler to
/// completion, logs `SimEnd`, then drops the runtime (which drops library-spawned tasks).
/// `setup` runs inside the runtime before the first step and returns the task definitions.
pub fn run_sim(
    cfg: SimCfg,
    chooser: &mut Chooser,
    setup: impl FnOnce() -> Vec<TaskDef>,
    hooks: Hooks<'_>,
) -> SimReport {
    install_panic_hook();
    let rt = tokio::runtime::Builder::new_current_thread()
        .enable_time()
        .start_paused(true)
        .rng_seed(tokio::runtime::RngSeed::from_bytes(&cfg.rt_seed.to_le_bytes()))
        .build()
        .expect("runtime");
    let report = rt.block_on(async {
        world::start_clock();
        let defs = setup();
        let shared = Arc::new(Shared {
            root_waker: Mutex::new(None),
            cur: AtomicU64::new(0),
            stamp: AtomicU64::new(1),
        });
        let n = defs.len();
        let mut tasks = Vec::with_capacity(n);
        for (i, d) in defs.into_iter().enumerate() {
            let wake = Arc::new(TaskWake {
                id: i as u64,
                dead: AtomicBool::new(false),
                woken: AtomicBool::new(false),
                stamp: AtomicU64::new(0),
                shared: shared.clone(),
            });
            let waker = Waker::from(wake.clone());
            tasks.push(Task {
                def_start_ms: d.start_ms,
                make: Some(d.make),
                fut: None,
                cancel: d.cancel,
                wake,
                waker,
                res: TaskRes {
                    status: Status::Unstarted,
                    out: None,
                    panic_msg: None,
                    first_poll_seq: 0,
                    first_poll_us: 0,
                    end_seq: 0,
                    end_us: 0,
                    polls: 0,
                    was_spinner: false,
                },
                spin: false,
                progress: false,
                prio: 0,
                constrained: false,
                busy: false,
            });
        }
        let mut change_points = Vec::new();
        if cfg.strategy == 1 {
            // priorities: a random permutation; up to 3 change points
            let mut order: Vec<usize> = (0..n).collect();
            for i in (1..n).rev() {
                let j = chooser.choose(i + 1);
                order.swap(i, j);
            }
            for (rank, ti) in order.iter().enumerate() {
                tasks[*ti].prio = (n - rank) as i64 + 10;
            }
            let d = chooser.choose(4);
            let span = (6 * n + 8).max(1);
            for _ in 0..d {
                change_points.push(chooser.choose(span) as u32);
            }
        }
        let t0 = tokio::time::Instant::now();
        let mut jumps = cfg.jumps.clone();
        jumps.sort();
        let mut cfg2 = cfg.clone();
        cfg2.jumps = jumps;
        let mut root = Root {
            cfg: cfg2,
            tasks,
            shared,
            chooser,
            hooks,
            timer: None,
            advancing: None,
            t0,
            steps: 0,
            jumps_done: 0,
            tail_end: None,
            hit_horizon: false,
            step_limit: false,
            idle_points: 0,
            change_points,
            low_prio: 0,
        };
        std::future::poll_fn(|cx| root.poll_root(cx)).await;
        let end_us = world::now_us();
        world::log(Ev::SimEnd);
        world::with(|w| {
            w.end_us = end_us;
            w.ended = true;
        });
        let rep = SimReport {
            tasks: root.tasks.iter().map(|t| t.res.clone()).collect(),
            steps: root.steps,
            hit_horizon: root.hit_horizon,
            step_limit: root.step_limit,
            end_us,
            idle_points: root.idle_points,
        };
        // drop remaining task futures inside the runtime context
        for t in root.tasks.iter_mut() {
            let f = t.fut.take();
            let _ = std::panic::catch_unwind(AssertUnwindSafe(move || drop(f)));
        }
        rep
    });
    let _ = std::panic::catch_unwind(AssertUnwindSafe(move || drop(rt)));
    report
}
