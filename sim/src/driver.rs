//! Batch driver: seeded search over scenarios and schedules, aggregation, known findings,
//! minimisation, replay files, evidence.

use crate::exec::Chooser;
use crate::rng::{mix, Rng};
use crate::world::Violation;
use serde_json::{json, Value};
use std::collections::{BTreeMap, HashSet};
use std::sync::atomic::{AtomicU64, Ordering};
use std::sync::Mutex;
use std::time::Instant;

#[derive(Clone, Copy, Debug, PartialEq, Eq)]
pub enum Tier {
    Quick,
    Thorough,
}

impl Tier {
    pub fn name(&self) -> &'static str {
        match self {
            Tier::Quick => "quick",
            Tier::Thorough => "thorough",
        }
    }
}

#[derive(Default, Debug)]
pub struct RunOutput {
    pub violations: Vec<Violation>,
    pub faults: BTreeMap<&'static str, u64>,
    pub probes: BTreeMap<&'static str, u64>,
    pub steps: u64,
    pub vtime_us: u64,
    pub nontrivial: bool,
    pub digest: u64,
    pub trace: Vec<u32>,
    pub diverged: bool,
    pub summary: Value,
}

pub struct RunCtx {
    pub chooser: Chooser,
    pub rt_seed: u64,
}

pub trait Prop: Sync + Send {
    fn id(&self) -> &'static str;
    fn engine(&self) -> &'static str {
        "asim"
    }
    fn gen(&self, rng: &mut Rng, tier: Tier) -> Value;
    fn valid(&self, scn: &Value) -> bool;
    fn run(&self, scn: &Value, ctx: &mut RunCtx) -> RunOutput;
    fn runs(&self, tier: Tier) -> u64;
    fn nontrivial_rule(&self) -> &'static str;
    fn real_components(&self) -> Vec<&'static str>;
    fn stub_components(&self) -> Vec<&'static str>;
    fn assumptions(&self) -> Vec<&'static str> {
        vec![]
    }
    /// The property itself says that the library's behaviour is a function of its inputs (C19:
    /// seed and request order). If the library draws on something outside the simulator (OS
    /// entropy), a replay cannot follow the recorded schedule: for such a property a replay
    /// that diverges, or that shows the same rule broken again, counts as reproduced.
    fn nondeterminism_is_the_violation(&self) -> bool {
        false
    }
    /// Extra, non-simulated work reported separately (e.g. C14's direct probe). Returns
    /// (violations, json for evidence).
    fn supplement(&self, _tier: Tier, _seed: u64) -> (Vec<Violation>, Value) {
        (vec![], Value::Null)
    }
}

#[derive(Clone, Debug)]
pub struct Known {
    pub status: String,
    pub property: String,
    pub rule: String,
    pub class: String,
    pub what: String,
}

pub fn load_known(path: &str) -> Vec<Known> {
    let Ok(s) = std::fs::read_to_string(path) else {
        return vec![];
    };
    let v: Value = serde_json::from_str(&s).expect("known_findings.json must be valid JSON");
    let mut out = vec![];
    for e in v["findings"].as_array().cloned().unwrap_or_default() {
        out.push(Known {
            status: e["status"].as_str().unwrap_or("").to_string(),
            property: e["property"].as_str().unwrap_or("").to_string(),
            rule: e["rule"].as_str().unwrap_or("").to_string(),
            class: e["class"].as_str().unwrap_or("").to_string(),
            what: e["what"].as_str().unwrap_or("").to_string(),
        });
    }
    out
}

fn seeds_for(seed: u64, prop: &str, i: u64) -> (u64, u64) {
    let base = mix(&[seed, crate::world::hash_str(prop), i]);
    (mix(&[base, 1]), mix(&[base, 2]))
}

pub fn run_one(p: &dyn Prop, scn: &Value, sched_seed: u64) -> RunOutput {
    let mut ctx = RunCtx {
        chooser: Chooser::from_seed(sched_seed),
        rt_seed: mix(&[sched_seed, 77]),
    };
    p.run(scn, &mut ctx)
}

pub fn run_trace(p: &dyn Prop, scn: &Value, sched_seed: u64, trace: Vec<u32>) -> RunOutput {
    let mut ctx = RunCtx {
        chooser: Chooser::from_trace(trace),
        rt_seed: mix(&[sched_seed, 77]),
    };
    p.run(scn, &mut ctx)
}

struct Found {
    index: u64,
    scn: Value,
    sched_seed: u64,
    v: Violation,
}

#[derive(Default)]
struct Agg {
    evaluations: u64,
    nontrivial: u64,
    digests: HashSet<u64>,
    all_digests: HashSet<u64>,
    faults: BTreeMap<String, u64>,
    probes: BTreeMap<String, u64>,
    steps: u64,
    vtime_us: u64,
    samples: Vec<Value>,
    found: BTreeMap<(String, String), Found>,
    diverged: u64,
}

pub struct CheckOpts {
    pub tier: Tier,
    pub seed: u64,
    pub runs: Option<u64>,
    pub threads: usize,
    pub verif_dir: String,
    pub write_evidence: bool,
}

fn shrink_candidates(v: &Value) -> Vec<Value> {
    // generic structural shrinking of a JSON scenario
    let mut out = Vec::new();
    fn walk(root: &Value, path: &mut Vec<PathEl>, cur: &Value, out: &mut Vec<Value>) {
        match cur {
            Value::Array(a) => {
                for i in 0..a.len() {
                    let mut r = root.clone();
                    if let Some(Value::Array(x)) = get_mut(&mut r, path) {
                        x.remove(i);
                    }
                    out.push(r);
                }
                for (i, e) in a.iter().enumerate() {
                    path.push(PathEl::Idx(i));
                    walk(root, path, e, out);
                    path.pop();
                }
            }
            Value::Object(o) => {
                // enum-like objects {"Err": k} -> "Ok"
                if o.len() == 1 && o.contains_key("Err") {
                    let mut r = root.clone();
                    if let Some(x) = get_mut(&mut r, path) {
                        *x = Value::String("Ok".into());
                    }
                    out.push(r);
                }
                for (k, e) in o.iter() {
                    path.push(PathEl::Key(k.clone()));
                    walk(root, path, e, out);
                    path.pop();
                }
            }
            Value::Number(n) => {
                if let Some(u) = n.as_u64() {
                    let mut cands = vec![0u64, 1, u / 2, u.saturating_sub(1)];
                    cands.dedup();
                    for c in cands {
                        if c < u {
                            let mut r = root.clone();
                            if let Some(x) = get_mut(&mut r, path) {
                                *x = json!(c);
                            }
                            out.push(r);
                        }
                    }
                }
            }
            Value::Bool(true) => {
                let mut r = root.clone();
                if let Some(x) = get_mut(&mut r, path) {
                    *x = Value::Bool(false);
                }
                out.push(r);
            }
            Value::String(s) if s == "Panic" || s == "Never" => {
                let mut r = root.clone();
                if let Some(x) = get_mut(&mut r, path) {
                    *x = Value::String("Ok".into());
                }
                out.push(r);
            }
            _ => {}
        }
    }
    let mut path = Vec::new();
    walk(v, &mut path, v, &mut out);
    out
}

enum PathEl {
    Idx(usize),
    Key(String),
}

fn get_mut<'a>(root: &'a mut Value, path: &[PathEl]) -> Option<&'a mut Value> {
    let mut cur = root;
    for p in path {
        cur = match p {
            PathEl::Idx(i) => cur.get_mut(*i)?,
            PathEl::Key(k) => cur.get_mut(k.as_str())?,
        };
    }
    Some(cur)
}

fn size_of(v: &Value) -> usize {
    serde_json::to_string(v).map(|s| s.len()).unwrap_or(0)
}

/// Delta-debugging style minimisation: accept a candidate when some schedule (the original
/// schedule seed or one of a few neighbours) still violates the same rule and class.
pub fn minimise(p: &dyn Prop, f: &Found, budget: usize) -> (Value, u64, Violation, usize) {
    let mut best = f.scn.clone();
    let mut best_seed = f.sched_seed;
    let mut best_v = f.v.clone();
    let mut spent = 0usize;
    let mut improved = true;
    while improved && spent < budget {
        improved = false;
        let cands = shrink_candidates(&best);
        for c in cands {
            if spent >= budget {
                break;
            }
            if size_of(&c) >= size_of(&best) || !p.valid(&c) {
                continue;
            }
            let mut hit = None;
            for k in 0..6u64 {
                let ss = if k == 0 { best_seed } else { mix(&[best_seed, k]) };
                spent += 1;
                let out = run_one(p, &c, ss);
                if let Some(v) = out
                    .violations
                    .iter()
                    .find(|v| v.rule == best_v.rule && v.class == best_v.class)
                {
                    hit = Some((ss, v.clone()));
                    break;
                }
            }
            if let Some((ss, v)) = hit {
                best = c;
                best_seed = ss;
                best_v = v;
                improved = true;
                break;
            }
        }
    }
    (best, best_seed, best_v, spent)
}

pub fn write_replay(
    dir: &str,
    p: &dyn Prop,
    opts: &CheckOpts,
    index: u64,
    scn: &Value,
    sched_seed: u64,
    v: &Violation,
    minimised_from: usize,
    shrink_runs: usize,
) -> String {
    let out = run_one(p, scn, sched_seed);
    let _ = std::fs::create_dir_all(dir);
    let path = format!(
        "{}/{}-{}-{}-{}{}.json",
        dir,
        p.id(),
        opts.seed,
        index,
        v.rule.replace('.', "_"),
        if v.class.is_empty() { String::new() } else { format!("-{}", v.class) }
    );
    let j = json!({
        "property": p.id(),
        "engine": p.engine(),
        "tier": opts.tier.name(),
        "seed": opts.seed,
        "run_index": index,
        "rule": v.rule,
        "class": v.class,
        "msg": v.msg,
        "scenario": scn,
        "sched_seed": sched_seed,
        "trace": out.trace,
        "digest": out.digest,
        "scenario_bytes_before_minimisation": minimised_from,
        "scenario_bytes": size_of(scn),
        "shrink_runs": shrink_runs,
    });
    std::fs::write(&path, serde_json::to_string_pretty(&j).unwrap()).expect("write replay");
    path
}

/// Replays a file; returns (reproduced same rule+class, digest equal, message).
pub fn replay_file(p: &dyn Prop, j: &Value) -> (bool, bool, String) {
    let scn = &j["scenario"];
    let sched_seed = j["sched_seed"].as_u64().unwrap_or(0);
    let trace: Vec<u32> = j["trace"]
        .as_array()
        .map(|a| a.iter().map(|x| x.as_u64().unwrap_or(0) as u32).collect())
        .unwrap_or_default();
    let out = run_trace(p, scn, sched_seed, trace);
    let rule = j["rule"].as_str().unwrap_or("");
    let class = j["class"].as_str().unwrap_or("");
    let hit = out
        .violations
        .iter()
        .find(|v| v.rule == rule && v.class == class);
    let dig = j["digest"].as_u64().unwrap_or(0) == out.digest;
    let msg = match hit {
        Some(v) => format!("{} [{}]: {}", v.rule, v.class, v.msg),
        None => format!(
            "not reproduced; violations now: {:?}",
            out.violations
                .iter()
                .map(|v| format!("{}[{}]", v.rule, v.class))
                .collect::<Vec<_>>()
        ),
    };
    let reproduced = if p.nondeterminism_is_the_violation() { hit.is_some() || out.diverged } else { hit.is_some() && !out.diverged };
    // (for such a property the event log of the replay differs by nature)
    let dig = dig || (p.nondeterminism_is_the_violation() && reproduced);
    (reproduced, dig, msg)
}

/// Replay file for a run that kills the process executing it (found by the parent process).
pub fn write_abort_replay(p: &dyn Prop, opts: &CheckOpts, index: u64, how: &str) -> String {
    let (scn_seed, sched_seed) = seeds_for(opts.seed, p.id(), index);
    let mut rng = Rng::new(scn_seed);
    let scn = p.gen(&mut rng, opts.tier);
    let dir = format!("{}/out/replays/{}", opts.verif_dir, p.id());
    let _ = std::fs::create_dir_all(&dir);
    let path = format!("{}/{}-{}-{}-{}_process_abort.json", dir, p.id(), opts.seed, index, p.id());
    let j = json!({
        "property": p.id(),
        "engine": p.engine(),
        "tier": opts.tier.name(),
        "seed": opts.seed,
        "run_index": index,
        "rule": format!("{}.process_abort", p.id()),
        "class": "",
        "msg": format!("the process executing this run died: {}", how),
        "scenario": scn,
        "sched_seed": sched_seed,
        "trace": [],
        "digest": 0,
    });
    std::fs::write(&path, serde_json::to_string_pretty(&j).unwrap()).expect("write replay");
    path
}

pub fn check(p: &dyn Prop, opts: &CheckOpts) -> i32 {
    let start = Instant::now();
    // second pass after the process died: one thread, the index of the run about to start is
    // left in a file
    let index_file = std::env::var("TRSIM_INDEX_FILE").ok();
    let opts = &CheckOpts { threads: if index_file.is_some() { 1 } else { opts.threads }, tier: opts.tier, seed: opts.seed, runs: opts.runs, verif_dir: opts.verif_dir.clone(), write_evidence: opts.write_evidence && index_file.is_none() };
    let total = opts.runs.unwrap_or_else(|| p.runs(opts.tier));
    let known = load_known(&format!("{}/known_findings.json", opts.verif_dir));
    let agg = Mutex::new(Agg::default());
    let chunk: u64 = 4096;
    let mut done: u64 = 0;
    let is_known = |v: &Violation| -> Option<&Known> {
        known.iter().find(|k| {
            k.status == "known" && k.property == p.id() && k.rule == v.rule && k.class == v.class
        })
    };
    while done < total {
        let hi = (done + chunk).min(total);
        let next = AtomicU64::new(done);
        std::thread::scope(|s| {
            for _ in 0..opts.threads {
                s.spawn(|| {
                    let mut local = Agg::default();
                    loop {
                        let i = next.fetch_add(1, Ordering::SeqCst);
                        if i >= hi {
                            break;
                        }
                        let (scn_seed, sched_seed) = seeds_for(opts.seed, p.id(), i);
                        let mut rng = Rng::new(scn_seed);
                        let scn = p.gen(&mut rng, opts.tier);
                        if let Some(f) = &index_file {
                            let _ = std::fs::write(f, i.to_string());
                        }
                        let out = run_one(p, &scn, sched_seed);
                        local.evaluations += 1;
                        local.steps += out.steps;
                        local.vtime_us += out.vtime_us;
                        if out.diverged {
                            local.diverged += 1;
                        }
                        local.all_digests.insert(out.digest);
                        if out.nontrivial {
                            local.nontrivial += 1;
                            local.digests.insert(out.digest);
                        }
                        for (k, v) in out.faults.iter() {
                            *local.faults.entry(k.to_string()).or_insert(0) += v;
                        }
                        for (k, v) in out.probes.iter() {
                            *local.probes.entry(k.to_string()).or_insert(0) += v;
                        }
                        if i < 3 || (out.nontrivial && local.samples.len() < 1 && i < 64) {
                            local.samples.push(json!({"run_index": i, "scenario": scn, "outcome": out.summary, "steps": out.steps, "virtual_ms": out.vtime_us/1000}));
                        }
                        for v in out.violations {
                            let key = (v.rule.clone(), v.class.clone());
                            let better = match local.found.get(&key) {
                                Some(f) => i < f.index,
                                None => true,
                            };
                            if better {
                                local.found.insert(
                                    key,
                                    Found {
                                        index: i,
                                        scn: scn.clone(),
                                        sched_seed,
                                        v,
                                    },
                                );
                            }
                        }
                    }
                    let mut a = agg.lock().unwrap();
                    a.evaluations += local.evaluations;
                    a.nontrivial += local.nontrivial;
                    a.steps += local.steps;
                    a.vtime_us += local.vtime_us;
                    a.diverged += local.diverged;
                    a.digests.extend(local.digests);
                    a.all_digests.extend(local.all_digests);
                    for (k, v) in local.faults {
                        *a.faults.entry(k).or_insert(0) += v;
                    }
                    for (k, v) in local.probes {
                        *a.probes.entry(k).or_insert(0) += v;
                    }
                    a.samples.extend(local.samples);
                    for (k, f) in local.found {
                        let better = match a.found.get(&k) {
                            Some(g) => f.index < g.index,
                            None => true,
                        };
                        if better {
                            a.found.insert(k, f);
                        }
                    }
                });
            }
        });
        done = hi;
        let a = agg.lock().unwrap();
        if a.found.values().any(|f| is_known(&f.v).is_none()) {
            break;
        }
    }
    let mut a = agg.into_inner().unwrap();
    a.samples
        .sort_by_key(|s| s["run_index"].as_u64().unwrap_or(0));
    a.samples.truncate(4);

    // supplement (non-simulated, reported separately)
    let (supp_v, supp_json) = p.supplement(opts.tier, opts.seed);
    for v in supp_v {
        let key = (v.rule.clone(), v.class.clone());
        a.found.entry(key).or_insert(Found {
            index: u64::MAX,
            scn: json!({"supplement": true, "msg": v.msg}),
            sched_seed: 0,
            v,
        });
    }

    let mut exit = 0;
    let mut known_lines = vec![];
    let mut viol_lines = vec![];
    let mut n_viol = 0;
    for (_k, f) in a.found.iter() {
        if let Some(k) = is_known(&f.v) {
            known_lines.push(format!(
                "KNOWN-FINDING: property={} rule={} class={} {} (first at run {}: {})",
                p.id(),
                f.v.rule,
                f.v.class,
                k.what,
                f.index,
                f.v.msg
            ));
            continue;
        }
        n_viol += 1;
        let dir = format!("{}/out/replays/{}", opts.verif_dir, p.id());
        let path;
        if f.index == u64::MAX {
            // supplement violation: replay file just records the input
            let _ = std::fs::create_dir_all(&dir);
            if let Some((_, mp)) = f.v.msg.split_once("msim_replay=") {
                // engine C wrote (and re-ran) its own replay file
                println!("violation detail: {} [{}] {}", f.v.rule, f.v.class, f.v.msg);
                viol_lines.push(format!("VIOLATION property={} replay={}", p.id(), mp.trim()));
                continue;
            }
            path = format!("{}/{}-supplement-{}.json", dir, p.id(), f.v.rule.replace('.', "_"));
            let j = json!({"property": p.id(), "supplement": true, "rule": f.v.rule, "class": f.v.class, "msg": f.v.msg, "seed": opts.seed, "tier": opts.tier.name()});
            std::fs::write(&path, serde_json::to_string_pretty(&j).unwrap()).unwrap();
        } else {
            let before = size_of(&f.scn);
            let (scn, ss, v, spent) = minimise(p, f, 2500);
            path = write_replay(&dir, p, opts, f.index, &scn, ss, &v, before, spent);
            // replay once in a fresh process
            let exe = std::env::current_exe().unwrap();
            let st = std::process::Command::new(exe)
                .arg("replay")
                .arg(&path)
                .arg("--quiet")
                .status();
            match st {
                Ok(s) if s.code() == Some(1) => {}
                other => {
                    println!(
                        "HARNESS-ERROR property={} replay of {} in a fresh process did not reproduce ({:?})",
                        p.id(),
                        path,
                        other.map(|s| s.code())
                    );
                    exit = 2;
                }
            }
            println!(
                "violation detail: {} [{}] {} (run {}, minimised {} -> {} bytes)",
                v.rule,
                v.class,
                v.msg,
                f.index,
                before,
                size_of(&scn)
            );
        }
        viol_lines.push(format!("VIOLATION property={} replay={}", p.id(), path));
    }
    for l in &known_lines {
        println!("{}", l);
    }
    for l in &viol_lines {
        println!("{}", l);
    }
    if !viol_lines.is_empty() && exit == 0 {
        exit = 1;
    }
    if a.diverged > 0 {
        println!("HARNESS-ERROR property={} {} runs diverged", p.id(), a.diverged);
        exit = 2;
    }
    if supp_json["engine_c"].as_str() == Some("error") {
        exit = 2;
    }
    let wall = start.elapsed().as_secs_f64();
    if opts.write_evidence {
        let runs_per_hour = if wall > 0.0 {
            (a.evaluations as f64 / wall * 3600.0) as u64
        } else {
            0
        };
        let zero_probes: Vec<&String> = a
            .probes
            .iter()
            .filter(|(_, v)| **v == 0)
            .map(|(k, _)| k)
            .collect();
        let ev = json!({
            "property_id": p.id(),
            "tier": opts.tier.name(),
            "seed": opts.seed,
            "level": "exploration",
            "coverage": {
                "evaluations": a.evaluations,
                "distinct_nontrivial": a.digests.len(),
                "rule": p.nontrivial_rule(),
                "samples": a.samples,
                "nontrivial_runs": a.nontrivial,
                "distinct_event_log_digests": a.all_digests.len(),
                "engine": p.engine(),
                "simulated_runs_per_hour": runs_per_hour,
                "seeds_per_hour": runs_per_hour,
                "virtual_time_simulated_s": a.vtime_us as f64 / 1e6,
                "scheduler_steps": a.steps,
                "faults_fired": a.faults,
                "probes_hit": a.probes,
                "probes_at_zero": zero_probes,
                "real_components": p.real_components(),
                "stub_components": p.stub_components(),
                "known_findings_seen": known_lines.len(),
                "supplement": supp_json,
                "threads": opts.threads,
                "exhaustive": false
            },
            "assumptions": p.assumptions(),
            "wall_s": wall,
            "violations": n_viol
        });
        let dir = format!("{}/evidence", opts.verif_dir);
        let _ = std::fs::create_dir_all(&dir);
        std::fs::write(
            format!("{}/{}.json", dir, p.id()),
            serde_json::to_string_pretty(&ev).unwrap(),
        )
        .expect("write evidence");
    }
    println!(
        "{} tier={} seed={} runs={} nontrivial={} distinct={} steps={} vtime={:.1}s wall={:.1}s exit={}",
        p.id(),
        opts.tier.name(),
        opts.seed,
        a.evaluations,
        a.nontrivial,
        a.digests.len(),
        a.steps,
        a.vtime_us as f64 / 1e6,
        wall,
        exit
    );
    exit
}

/// Determinism self-test: every (seed, run) executed twice must give the same digest; the
/// digests are also printed so that two processes / worker counts can be diffed.
pub fn determinism(p: &dyn Prop, seed: u64, n: u64, threads: usize, print: bool) -> i32 {
    let next = AtomicU64::new(0);
    let results = Mutex::new(vec![0u64; n as usize]);
    let bad = AtomicU64::new(0);
    std::thread::scope(|s| {
        for _ in 0..threads {
            s.spawn(|| loop {
                let i = next.fetch_add(1, Ordering::SeqCst);
                if i >= n {
                    break;
                }
                let (scn_seed, sched_seed) = seeds_for(seed, p.id(), i);
                let scn = p.gen(&mut Rng::new(scn_seed), Tier::Quick);
                let scn2 = p.gen(&mut Rng::new(scn_seed), Tier::Quick);
                let a = run_one(p, &scn, sched_seed);
                let b = run_one(p, &scn2, sched_seed);
                let c = run_trace(p, &scn, sched_seed, a.trace.clone());
                if a.digest != b.digest || a.digest != c.digest || c.diverged || scn != scn2 {
                    bad.fetch_add(1, Ordering::SeqCst);
                    if print {
                        eprintln!("MISMATCH index {} a={:x} b={:x} c={:x} diverged={}", i, a.digest, b.digest, c.digest, c.diverged);
                    }
                }
                results.lock().unwrap()[i as usize] = a.digest;
            });
        }
    });
    let r = results.into_inner().unwrap();
    let mut h = 0u64;
    for (i, d) in r.iter().enumerate() {
        h = mix(&[h, *d]);
        if print {
            println!("{} {} {:016x}", p.id(), i, d);
        }
    }
    println!(
        "DETERMINISM property={} seed={} runs={} threads={} mismatches={} combined={:016x}",
        p.id(),
        seed,
        n,
        threads,
        bad.load(Ordering::SeqCst),
        h
    );
    if bad.load(Ordering::SeqCst) > 0 {
        2
    } else {
        0
    }
}

pub fn show(p: &dyn Prop, seed: u64, i: u64) {
    let (scn_seed, sched_seed) = seeds_for(seed, p.id(), i);
    let scn = p.gen(&mut Rng::new(scn_seed), Tier::Quick);
    println!("scenario: {}", serde_json::to_string_pretty(&scn).unwrap());
    let out = run_one(p, &scn, sched_seed);
    println!("outcome: {}", serde_json::to_string_pretty(&out.summary).unwrap());
    println!("violations: {:?}", out.violations);
    println!("faults: {:?} probes: {:?} steps={} vtime_us={} nontrivial={}", out.faults, out.probes, out.steps, out.vtime_us, out.nontrivial);
}
